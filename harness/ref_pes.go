package astits

// Reference model and encoder of a PES packet header, written from ISO/IEC 13818-1 2.4.3.6 / 2.4.3.7.

type mPESExt struct {
	hasPriv, hasPack, hasSeq, hasPSTD, hasExt2 bool
	priv                                       []byte // 16 bytes
	packLen                                    uint8
	seq                                        uint8 // 7 bits
	mpeg1                                      uint8 // 1 bit
	origStuff                                  uint8 // 6 bits
	pstdScale                                  uint8 // 1 bit
	pstdSize                                   uint16 // 13 bits
	ext2                                       []byte
}

type mPESOpt struct {
	scrambling                                          uint8 // 2 bits
	priority, align, copyright, original                bool
	ptsdts                                              uint8 // 0, 2, 3
	hasESCR, hasESRate, hasTrick, hasCopy, hasCRC, hasExt bool
	pts, dts, escrBase                                  uint64 // 33 bits
	escrExt                                             uint16 // 9 bits
	esRate                                              uint32 // 22 bits
	trick                                               uint8  // the 8 bits of DSM_trick_mode
	copyInfo                                            uint8  // 7 bits
	crc                                                 uint16
	ext                                                 mPESExt
	stuffing                                            int
}

type mPES struct {
	streamID uint8
	opt      *mPESOpt // nil for stream ids without optional header
	payload  []byte
}

func refPESHasOpt(sid uint8) bool {
	// ISO 13818-1 table 2-21: these ids carry PES_packet_data_bytes / padding directly after the length.
	// The library implements the rule for padding_stream and private_stream_2 (the domain of this model).
	return sid != 0xBE && sid != 0xBF
}

func refPESOptDataLen(o *mPESOpt) int {
	n := 0
	if o.ptsdts == 2 {
		n += 5
	}
	if o.ptsdts == 3 {
		n += 10
	}
	if o.hasESCR {
		n += 6
	}
	if o.hasESRate {
		n += 3
	}
	if o.hasTrick {
		n++
	}
	if o.hasCopy {
		n++
	}
	if o.hasCRC {
		n += 2
	}
	if o.hasExt {
		n++
		e := &o.ext
		if e.hasPriv {
			n += 16
		}
		if e.hasPack {
			n += 1 + int(e.packLen)
		}
		if e.hasSeq {
			n += 2
		}
		if e.hasPSTD {
			n += 2
		}
		if e.hasExt2 {
			n += 1 + len(e.ext2)
		}
	}
	return n + o.stuffing
}

func refPutESCR(w *refW, base uint64, ext uint16) {
	w.put(2, 3)
	w.put(3, base>>30)
	w.put(1, 1)
	w.put(15, base>>15)
	w.put(1, 1)
	w.put(15, base)
	w.put(1, 1)
	w.put(9, uint64(ext))
	w.put(1, 1)
}

func refEncodePESOpt(w *refW, o *mPESOpt) {
	w.put(2, 2)
	w.put(2, uint64(o.scrambling))
	w.flag(o.priority)
	w.flag(o.align)
	w.flag(o.copyright)
	w.flag(o.original)
	w.put(2, uint64(o.ptsdts))
	w.flag(o.hasESCR)
	w.flag(o.hasESRate)
	w.flag(o.hasTrick)
	w.flag(o.hasCopy)
	w.flag(o.hasCRC)
	w.flag(o.hasExt)
	w.put(8, uint64(refPESOptDataLen(o)))
	if o.ptsdts == 2 {
		refPutTimestamp(w, 2, o.pts)
	}
	if o.ptsdts == 3 {
		refPutTimestamp(w, 3, o.pts)
		refPutTimestamp(w, 1, o.dts)
	}
	if o.hasESCR {
		refPutESCR(w, o.escrBase, o.escrExt)
	}
	if o.hasESRate {
		w.put(1, 1)
		w.put(22, uint64(o.esRate))
		w.put(1, 1)
	}
	if o.hasTrick {
		w.put(8, uint64(o.trick))
	}
	if o.hasCopy {
		w.put(1, 1)
		w.put(7, uint64(o.copyInfo))
	}
	if o.hasCRC {
		w.put(16, uint64(o.crc))
	}
	if o.hasExt {
		e := &o.ext
		w.flag(e.hasPriv)
		w.flag(e.hasPack)
		w.flag(e.hasSeq)
		w.flag(e.hasPSTD)
		w.put(3, 7)
		w.flag(e.hasExt2)
		if e.hasPriv {
			w.bytes(e.priv)
		}
		if e.hasPack {
			w.put(8, uint64(e.packLen))
			w.fill(int(e.packLen), 0)
		}
		if e.hasSeq {
			w.put(1, 1)
			w.put(7, uint64(e.seq))
			w.put(1, 1)
			w.put(1, uint64(e.mpeg1))
			w.put(6, uint64(e.origStuff))
		}
		if e.hasPSTD {
			w.put(2, 1)
			w.put(1, uint64(e.pstdScale))
			w.put(13, uint64(e.pstdSize))
		}
		if e.hasExt2 {
			w.put(1, 1)
			w.put(7, uint64(len(e.ext2)))
			w.bytes(e.ext2)
		}
	}
	w.fill(o.stuffing, 0xff)
}

// refPESHeaderLen: bytes from the start code to the first payload byte
func refPESHeaderLen(m *mPES) int {
	if m.opt == nil {
		return 6
	}
	return 9 + refPESOptDataLen(m.opt)
}

// refEncodePES encodes start code, stream id, the given PES_packet_length value, the optional header and the payload
func refEncodePES(m *mPES, packetLength uint16) []byte {
	w := &refW{}
	w.put(24, 1)
	w.put(8, uint64(m.streamID))
	w.put(16, uint64(packetLength))
	if m.opt != nil {
		refEncodePESOpt(w, m.opt)
	}
	w.bytes(m.payload)
	return w.b
}

// vModelPESOpt draws an optional header: flags6 = ESCR,ESrate,trick,copy,CRC,ext (bit5..bit0);
// eflags5 = private,pack,seq,P-STD,ext2 (bit4..bit0)
func vModelPESOpt(ptsdts, flags6, eflags5, ext2Len, stuffing int) *mPESOpt {
	o := &mPESOpt{}
	o.scrambling = vBits8(2)
	o.priority, o.align, o.copyright, o.original = vnondetBool(), vnondetBool(), vnondetBool(), vnondetBool()
	o.ptsdts = uint8(ptsdts)
	if ptsdts >= 2 {
		o.pts = vTS33()
	}
	if ptsdts == 3 {
		o.dts = vTS33()
	}
	o.hasESCR = flags6&32 != 0
	o.hasESRate = flags6&16 != 0
	o.hasTrick = flags6&8 != 0
	o.hasCopy = flags6&4 != 0
	o.hasCRC = flags6&2 != 0
	o.hasExt = flags6&1 != 0
	if o.hasESCR {
		o.escrBase, o.escrExt = vTS33(), vBits16(9)
	}
	if o.hasESRate {
		o.esRate = vBits32(22)
	}
	if o.hasTrick {
		o.trick = vnondetU8()
	}
	if o.hasCopy {
		o.copyInfo = vBits8(7)
	}
	if o.hasCRC {
		o.crc = vnondetU16()
	}
	if o.hasExt {
		e := &o.ext
		e.hasPriv = eflags5&16 != 0
		e.hasPack = eflags5&8 != 0
		e.hasSeq = eflags5&4 != 0
		e.hasPSTD = eflags5&2 != 0
		e.hasExt2 = eflags5&1 != 0
		if e.hasPriv {
			e.priv = vnondetBytes(16)
		}
		if e.hasSeq {
			e.seq, e.mpeg1, e.origStuff = vBits8(7), vBits8(1), vBits8(6)
		}
		if e.hasPSTD {
			e.pstdScale, e.pstdSize = vBits8(1), vBits16(13)
		}
		if e.hasExt2 {
			e.ext2 = vnondetBytes(ext2Len)
		}
	}
	o.stuffing = stuffing
	return o
}

// reference decode of the DSM trick mode byte (ISO 13818-1 2.4.3.7, table 2-24)
type refTrick struct{ control, fieldID, intra, freq, rep uint8 }

func refDecodeTrick(b uint8) refTrick {
	t := refTrick{control: b >> 5}
	switch t.control {
	case 0, 3: // fast forward, fast reverse
		t.fieldID = b >> 3 & 3
		t.intra = b >> 2 & 1
		t.freq = b & 3
	case 1, 4: // slow motion, slow reverse
		t.rep = b & 0x1f
	case 2: // freeze frame
		t.fieldID = b >> 3 & 3
	}
	return t
}
