package astits

// C03: demuxing any finite input terminates without panicking.
// (A Go panic anywhere in the code under test is reported by the engine as a violation of the running harness.)

// HarnessC03Packet: parsePacket on `size` arbitrary bytes, with and without a skipper taking arbitrary decisions
func HarnessC03Packet(size, skipper int) {
	b := vnondetBytes(size)
	var s PacketSkipper
	if skipper == 1 {
		s = func(p *Packet) bool { return vnondetBool() }
	}
	p, err := parsePacket(astikitIter(b), s)
	if err == nil {
		vassert("C03.packet.result", p != nil)
		vreach("C03.packet.ok")
	} else {
		vreach("C03.packet.err")
	}
}

// HarnessC03PES: parsePESData on every byte string of length n that starts like a PES packet
func HarnessC03PES(n int) {
	b := vnondetBytes(n)
	if n >= 3 {
		b[0], b[1], b[2] = 0, 0, 1
	}
	d, err := parsePESData(astikitIter(b))
	if err == nil {
		vassert("C03.pes.result", d != nil && d.Header != nil && len(d.Data) <= n)
		vreach("C03.pes.ok")
	} else {
		vreach("C03.pes.err")
	}
}

// HarnessC03PSI: parsePSIData and isPSIComplete on every byte string of length n
func HarnessC03PSI(n int) {
	b := vnondetBytes(n)
	_, err := parsePSIData(astikitIter(b))
	if err == nil {
		vreach("C03.psi.ok")
	} else {
		vreach("C03.psi.err")
	}
	// the completeness test the packet pool runs on PAT/PMT PIDs, reached through the accumulator (the harness does not
	// depend on the signature of the helper behind it)
	newPacketAccumulator(PIDPAT, newProgramMap()).add(&Packet{Header: PacketHeader{PID: PIDPAT, HasPayload: true, PayloadUnitStartIndicator: true}, Payload: b})
	vreach("C03.psi.end")
}

// c03Junk: n bytes of which the first 4 of every stride are arbitrary (sync byte, header) and the adaptation-field
// length is one of {0, 183, 250} and the rest is fixed junk: enough to drive every branch of the packet reader and of the pool
func c03Junk(n, stride int) []byte {
	b := make([]byte, n)
	for i := range b {
		b[i] = 0xA5
	}
	for o := 0; o < n; o += stride {
		for k := 0; k < 4 && o+k < n; k++ {
			b[o+k] = vnondetU8()
		}
		if o+4 < n {
			b[o+4] = byte(vchoose(0, 183, 250)) // adaptation_field_length: none / whole packet / beyond the packet
		}
		if o+5 < n {
			b[o+5] = 0
		}
	}
	return b
}

// HarnessC03Progress: NextPacket / NextData on inputs of every listed length: every call consumes one packet or
// returns ErrNoMorePackets; a truncated last packet is end of stream; after the first ErrNoMorePackets every call
// returns it again; the number of calls until then is bounded by the input length
func HarnessC03Progress(n, size, api, kind int) {
	stride := size
	if stride == 0 {
		stride = 188
	}
	data := c03Junk(n, stride)
	r, vr := c08Reader(kind, data, nil)
	var dmx *Demuxer
	if size > 0 {
		dmx = NewDemuxer(vCtx{}, r, DemuxerOptPacketSize(size))
	} else {
		dmx = NewDemuxer(vCtx{}, r)
	}
	// F12 region: exactly the inputs on which packet-size auto-detection fails: no input, first byte not a sync byte, no
	// second sync byte at offsets 188..192 inside the input
	f12 := false
	if size == 0 {
		second := false
		for idx := 188; idx < 193 && idx < n; idx++ {
			second = second || data[idx] == 0x47
		}
		f12 = n == 0 || data[0] != 0x47 || !second
	}
	bound := n/stride + 4
	ended := false
	calls := 0
	for k := 0; k < bound; k++ {
		before := vr.pos
		var err error
		if api == 0 {
			_, err = dmx.NextPacket()
		} else {
			_, err = dmx.NextData()
		}
		calls++
		if err == ErrNoMorePackets {
			ended = true
			break
		}
		if api == 0 && size > 0 && kind < 2 { // (a bufio reader reads ahead of the demuxer)
			vassert("C03.progress.consumes", vr.pos == before+size)
		}
	}
	vassertK("C03.progress.terminates", "F12", f12, ended)
	if ended {
		for k := 0; k < 2; k++ {
			var err error
			if api == 0 {
				_, err = dmx.NextPacket()
			} else {
				_, err = dmx.NextData()
			}
			vassert("C03.progress.sticky", err == ErrNoMorePackets)
		}
	}
	vreach("C03.progress.end")
}

// HarnessC03PacketAF: parsePacket on a packet whose header is arbitrary, whose adaptation_field_length is the given
// value and whose adaptation field bytes (flags, PCR, private-data length, extension ...) are all arbitrary:
// no panic, and on success the payload is what lies behind the declared adaptation field
func HarnessC03PacketAF(afLen, size int) {
	b := vnondetBytes(size)
	b[0] = 0x47
	b[size-188+4] = byte(afLen)
	// keep the symbolic part to the adaptation field: the rest of the packet is fixed junk
	lim := size - 188 + 5 + afLen
	if lim > size-188+5+40 {
		lim = size - 188 + 5 + 40 // optional fields of an adaptation field take at most 40 bytes before stuffing / private data run on
	}
	for i := lim; i < size; i++ {
		b[i] = 0xA5
	}
	p, err := parsePacket(astikitIter(b), nil)
	if err == nil {
		vassert("C03.packetaf.result", p != nil)
		if p.Header.HasAdaptationField && p.Header.HasPayload {
			vassert("C03.packetaf.payload", len(p.Payload) == 188-5-afLen || (afLen > 183 && len(p.Payload) == 0))
		}
		vreach("C03.packetaf.ok")
	} else {
		vreach("C03.packetaf.err")
	}
}

// HarnessC03Long: a unit of npk packets on one PID (PES, or PSI on the SDT PID) - the reassembly buffer comes from a
// pool and grows with the unit: no panic at any size, the unit is delivered whole. first: a smaller unit demuxed
// before, so that the pool hands back a buffer that is too small
func HarnessC03Long(npk, psi, first int) {
	s := &sStream{}
	if first > 0 {
		u0 := mkPESPattern(0x101, first*184-14, true, 1)
		s.add(u0, packetize(u0, 0, 184, false))
	}
	var u *sUnit
	if psi == 1 {
		// a private section (table id 0x90, no syntax: stops the parser) spread over npk packets on the SDT PID
		b := make([]byte, npk*184)
		for i := range b {
			b[i] = byte(0x40 + i%0x30)
		}
		b[0] = 0 // pointer_field
		b[1] = 0x90
		u = &sUnit{pid: 0x11, kind: 3, bytes: b}
	} else {
		u = mkPESPattern(0x100, npk*184-14, false, 2)
	}
	s.add(u, packetize(u, 5, 184, false))
	got, ended := drainTolerant(s.bytes(), npk+first+6)
	vassert("C03.long.terminates", ended)
	if psi == 0 {
		g := perPID(got, 0x100)
		vassert("C03.long.delivered", len(g) == 1 && g[0].PES != nil && vBytesEq(g[0].PES.Data, u.pes.payload))
	}
	vreach("C03.long.end")
}
