package astits

import "github.com/asticode/go-astikit"

// C11: TS packet header and adaptation field are read and written per ISO 13818-1.

// HarnessC11HeaderParse: all 2^24 header bit patterns
func HarnessC11HeaderParse() {
	b := vnondetBytes(3)
	h, err := parsePacketHeader(astikit.NewBytesIterator(b))
	vassert("C11.hdr.parse.err", err == nil)
	vassert("C11.hdr.parse.tei", h.TransportErrorIndicator == (refGet(b, 0, 1) == 1))
	vassert("C11.hdr.parse.pusi", h.PayloadUnitStartIndicator == (refGet(b, 1, 1) == 1))
	vassert("C11.hdr.parse.prio", h.TransportPriority == (refGet(b, 2, 1) == 1))
	vassert("C11.hdr.parse.pid", uint64(h.PID) == refGet(b, 3, 13))
	vassert("C11.hdr.parse.tsc", uint64(h.TransportScramblingControl) == refGet(b, 16, 2))
	vassert("C11.hdr.parse.af", h.HasAdaptationField == (refGet(b, 18, 1) == 1))
	vassert("C11.hdr.parse.pl", h.HasPayload == (refGet(b, 19, 1) == 1))
	vassert("C11.hdr.parse.cc", uint64(h.ContinuityCounter) == refGet(b, 20, 4))
	vreach("C11.hdr.parse.end")
}

// HarnessC11HeaderWrite: every header value
func HarnessC11HeaderWrite() {
	m := &mPacket{}
	vModelHeader(m)
	m.hasAF, m.hasPayload = vnondetBool(), vnondetBool()
	sink := newVSink()
	w := astikit.NewBitsWriter(astikit.BitsWriterOptions{Writer: sink})
	n, err := writePacketHeader(w, modelToPacket(m).Header)
	vassert("C11.hdr.write.err", err == nil)
	vassert("C11.hdr.write.n", n == 3)
	rw := &refW{}
	refEncodeTSHeader(rw, m)
	vassert("C11.hdr.write.bytes", vBytesEq(sink.buf, rw.b[1:]))
	vreach("C11.hdr.write.end")
}

// HarnessC11PCR: all 2^42 (base, ext) pairs, both directions
func HarnessC11PCR() {
	base, ext := vTS33(), vBits16(9)
	rw := &refW{}
	refPutPCR(rw, base, ext)
	cr, err := parsePCR(astikit.NewBytesIterator(rw.b))
	vassert("C11.pcr.parse.err", err == nil)
	vassert("C11.pcr.parse.base", cr.Base == int64(base))
	vassert("C11.pcr.parse.ext", cr.Extension == int64(ext))
	sink := newVSink()
	w := astikit.NewBitsWriter(astikit.BitsWriterOptions{Writer: sink})
	n, err := writePCR(w, &ClockReference{Base: int64(base), Extension: int64(ext)})
	vassert("C11.pcr.write.err", err == nil)
	vassert("C11.pcr.write.n", n == 6)
	vassert("C11.pcr.write.bytes", vBytesEq(sink.buf, rw.b))
	// reserved bits are ignored on input
	raw := vnondetBytes(6)
	cr2, _ := parsePCR(astikit.NewBytesIterator(raw))
	vassert("C11.pcr.parse.raw.base", uint64(cr2.Base) == refGet(raw, 0, 33))
	vassert("C11.pcr.parse.raw.ext", uint64(cr2.Extension) == refGet(raw, 39, 9))
	vreach("C11.pcr.end")
}

func c11Stuffing(c int, room int) int {
	switch c {
	case 0:
		return 0
	case 1:
		return 1
	case 2:
		return 2
	case 3:
		return 7
	}
	return room // fill the packet (no payload bytes left)
}

func c11PrivLen(c int) int {
	return []int{0, 1, 2, 3, 16, 40}[c]
}

// c11Model draws a packet: afc in {1: payload only, 2: AF only, 3: both}; flags selects the AF optional parts;
// the extension subset, the private-data length and the stuffing amount are case-split inside (level 0: quick sets,
// level 1: thorough sets).
func c11Model(afc, flags, level int) *mPacket {
	eflags, privCase, stuffCase := 0, 0, 0
	if afc&2 != 0 {
		if flags&1 != 0 {
			eflags = vrange(0, 7)
		}
		if flags&2 != 0 {
			if level == 0 {
				privCase = vchoose(0, 2, 4)
			} else {
				privCase = vrange(0, 5)
			}
		}
		if afc == 3 {
			if level == 0 {
				stuffCase = vchoose(0, 1, 4)
			} else {
				stuffCase = vrange(0, 4)
			}
		}
	}
	m := &mPacket{}
	vModelHeader(m)
	m.hasAF = afc&2 != 0
	m.hasPayload = afc&1 != 0
	room := 184
	if m.hasAF {
		m.af = vModelAF(flags, eflags, c11PrivLen(privCase), 0)
		need := 1 + refAFLen(&m.af)
		vassume(need <= 184)
		st := c11Stuffing(stuffCase, 184-need)
		if !m.hasPayload {
			// ISO: an adaptation-field-only packet has adaptation_field_length 183
			st = 184 - need
		}
		vassume(need+st <= 184)
		m.af.stuffing = st
		room = 184 - need - st
	}
	if m.hasPayload {
		m.payload = vnondetBytes(room)
	}
	return m
}

func c11CheckParsed(p *Packet, m *mPacket) {
	h := p.Header
	vassert("C11.af.parse.hdr", h.TransportErrorIndicator == m.tei && h.PayloadUnitStartIndicator == m.pusi &&
		h.TransportPriority == m.prio && h.PID == m.pid && h.TransportScramblingControl == m.tsc &&
		h.HasAdaptationField == m.hasAF && h.HasPayload == m.hasPayload && h.ContinuityCounter == m.cc)
	if m.hasAF {
		a, r := p.AdaptationField, &m.af
		vassert("C11.af.parse.present", a != nil)
		vassert("C11.af.parse.length", a.Length == refAFLen(r))
		if !r.zeroLen {
			vassert("C11.af.parse.flags", a.DiscontinuityIndicator == r.disc && a.RandomAccessIndicator == r.rai &&
				a.ElementaryStreamPriorityIndicator == r.esp && a.HasPCR == r.hasPCR && a.HasOPCR == r.hasOPCR &&
				a.HasSplicingCountdown == r.hasSplice && a.HasTransportPrivateData == r.hasPriv &&
				a.HasAdaptationExtensionField == r.hasExt)
			if r.hasPCR {
				vassert("C11.af.parse.pcr", a.PCR != nil && a.PCR.Base == int64(r.pcrBase) && a.PCR.Extension == int64(r.pcrExt))
			} else {
				vassert("C11.af.parse.nopcr", a.PCR == nil)
			}
			if r.hasOPCR {
				vassert("C11.af.parse.opcr", a.OPCR != nil && a.OPCR.Base == int64(r.opcrBase) && a.OPCR.Extension == int64(r.opcrExt))
			} else {
				vassert("C11.af.parse.noopcr", a.OPCR == nil)
			}
			if r.hasSplice {
				// signedness of the countdown is not stated by the property: compare its 8 bits
				vassert("C11.af.parse.splice", uint8(a.SpliceCountdown) == r.splice)
			}
			if r.hasPriv {
				vassert("C11.af.parse.privlen", a.TransportPrivateDataLength == len(r.priv))
				vassert("C11.af.parse.priv", vBytesEq(a.TransportPrivateData, r.priv))
			}
			if r.hasExt {
				x, e := a.AdaptationExtensionField, &r.ext
				vassert("C11.af.parse.ext.present", x != nil)
				vassert("C11.af.parse.ext.len", x.Length == refAFExtLen(e))
				vassert("C11.af.parse.ext.flags", x.HasLegalTimeWindow == e.hasLTW && x.HasPiecewiseRate == e.hasPW && x.HasSeamlessSplice == e.hasSS)
				if e.hasLTW {
					vassert("C11.af.parse.ext.ltw", x.LegalTimeWindowIsValid == e.ltwValid && x.LegalTimeWindowOffset == e.ltwOffset)
				}
				if e.hasPW {
					vassert("C11.af.parse.ext.pw", x.PiecewiseRate == e.pwRate)
				}
				if e.hasSS {
					vassert("C11.af.parse.ext.ss", x.SpliceType == e.spliceType && x.DTSNextAccessUnit != nil && x.DTSNextAccessUnit.Base == int64(e.dts))
				}
			} else {
				vassert("C11.af.parse.noext", a.AdaptationExtensionField == nil)
			}
		}
		vassert("C11.af.parse.stuffing", a.StuffingLength == r.stuffing)
	} else {
		vassert("C11.af.parse.absent", p.AdaptationField == nil)
	}
	if m.hasPayload {
		vassert("C11.af.parse.payload", vBytesEq(p.Payload, m.payload))
	} else {
		vassert("C11.af.parse.nopayload", len(p.Payload) == 0)
	}
}

// HarnessC11Parse: parsing the reference encoding of any packet yields that packet
func HarnessC11Parse(afc, flags, level int) {
	m := c11Model(afc, flags, level)
	x := refEncodePacket(m)
	vassert("C11.ref.len", len(x) == 188)
	p, err := parsePacket(astikit.NewBytesIterator(x), nil)
	vassert("C11.af.parse.err", err == nil)
	c11CheckParsed(p, m)
	vreach("C11.parse.end")
}

// HarnessC11Write: writing any packet yields its reference encoding, exactly 188 bytes
func HarnessC11Write(afc, flags, level int) {
	m := c11Model(afc, flags, level)
	x := refEncodePacket(m)
	sink := newVSink()
	mx := NewMuxer(vCtx{}, sink)
	n, err := mx.WritePacket(modelToPacket(m))
	vassert("C11.af.write.err", err == nil)
	vassert("C11.af.write.n", n == 188)
	vassert("C11.af.write.len", len(sink.buf) == 188)
	vassert("C11.af.write.bytes", vBytesEq(sink.buf, x))
	vreach("C11.write.end")
}

// HarnessC11RoundTrip: a conformant packet obtained from NextPacket is re-emitted byte-identically
func HarnessC11RoundTrip(afc, flags, level int) {
	m := c11Model(afc, flags, level)
	x := refEncodePacket(m)
	dmx := NewDemuxer(vCtx{}, newVReader(x), DemuxerOptPacketSize(188))
	p, err := dmx.NextPacket()
	vassert("C11.rt.parse.err", err == nil)
	sink := newVSink()
	mx := NewMuxer(vCtx{}, sink)
	// the muxer has been used before (tables and a PES unit went through its internal buffers) and is used again after
	mx.AddElementaryStream(PMTElementaryStream{ElementaryPID: 0x100, StreamType: StreamTypeAACAudio})
	mx.SetPCRPID(0x100)
	mx.WriteData(&MuxerData{PID: 0x100, PES: &PESData{Header: &PESHeader{StreamID: 0xc0}, Data: []byte{1, 2, 3, 4, 5}}})
	pos := len(sink.buf)
	vassert("C11.rt.prior", pos == 3*188)
	n, err := mx.WritePacket(p)
	vassert("C11.rt.write.err", err == nil)
	vassert("C11.rt.n", n == 188)
	vassert("C11.rt.bytes", len(sink.buf) == pos+188 && vBytesEq(sink.buf[pos:], x))
	// ... then a packet it has to reject (payload of 184 bytes beside a one-byte adaptation field) leaves nothing behind
	bad := &Packet{Header: PacketHeader{PID: 0x200, HasAdaptationField: true, HasPayload: true}, AdaptationField: &PacketAdaptationField{IsOneByteStuffing: true}, Payload: make([]byte, 184)}
	nb, errb := mx.WritePacket(bad)
	vassert("C11.rt.rejected", errb != nil && nb == 0 && len(sink.buf) == pos+188)
	n, err = mx.WritePacket(p)
	vassert("C11.rt.again", err == nil && n == 188 && len(sink.buf) == pos+376 && vBytesEq(sink.buf[pos+188:], x))
	vreach("C11.rt.end")
}

// HarnessC11ZeroLenAF: adaptation_field_length == 0 (a single stuffing byte)
func HarnessC11ZeroLenAF() {
	m := &mPacket{}
	vModelHeader(m)
	m.hasAF, m.hasPayload = true, true
	m.af.zeroLen = true
	m.payload = vnondetBytes(183)
	x := refEncodePacket(m)
	p, err := parsePacket(astikit.NewBytesIterator(x), nil)
	vassert("C11.af0.parse.err", err == nil)
	vassert("C11.af0.parse.len", p.AdaptationField != nil && p.AdaptationField.Length == 0)
	vassert("C11.af0.parse.payload", vBytesEq(p.Payload, m.payload))
	// writing the model (one-byte stuffing form)
	sink := newVSink()
	mx := NewMuxer(vCtx{}, sink)
	n, err := mx.WritePacket(modelToPacket(m))
	vassert("C11.af0.write.err", err == nil)
	vassert("C11.af0.write.bytes", n == 188 && vBytesEq(sink.buf, x))
	// re-emitting what the parser returned
	sink2 := newVSink()
	mx2 := NewMuxer(vCtx{}, sink2)
	n2, err2 := mx2.WritePacket(p)
	vassertK("C11.af0.rt", "F7", true, err2 == nil && n2 == 188 && vBytesEq(sink2.buf, x))
	vreach("C11.af0.end")
}

// HarnessC11RoundTripLater: a packet obtained from NextPacket is still re-emitted byte-identically after the next
// packet has been read (nothing it refers to may alias the demuxer's read buffer)
func HarnessC11RoundTripLater(flags int) {
	m1 := c11Model(3, flags, 0)
	m2 := c11Model(3, flags, 0)
	x1, x2 := refEncodePacket(m1), refEncodePacket(m2)
	dmx := NewDemuxer(vCtx{}, newVReader(append(append([]byte{}, x1...), x2...)), DemuxerOptPacketSize(188))
	p1, err := dmx.NextPacket()
	vassert("C11.later.read1", err == nil)
	p2, err := dmx.NextPacket()
	vassert("C11.later.read2", err == nil)
	for k, pk := range []*Packet{p1, p2} {
		sink := newVSink()
		mx := NewMuxer(vCtx{}, sink)
		n, err := mx.WritePacket(pk)
		vassert("C11.later.write", err == nil && n == 188)
		vassert("C11.later.bytes", vBytesEq(sink.buf, [][]byte{x1, x2}[k]))
	}
	vreach("C11.later.end")
}
