package astits

// C20: Rewind restarts demuxing from a clean state.   C16: returned results are never mutated later.

// HarnessC20Rewind: k NextData (or NextPacket) calls, Rewind, then a full drain equals a fresh demuxer's drain
func HarnessC20Rewind(api, auto, twice int) {
	s := c08Stream()
	data := s.bytes()
	ref, err := drainReader(newVSeekReader(data), 188)
	vassert("C20.ref", err == nil && len(ref) == 4)
	r := newVSeekReader(data)
	var dmx *Demuxer
	if auto == 1 {
		dmx = NewDemuxer(vCtx{}, r)
	} else {
		dmx = NewDemuxer(vCtx{}, r, DemuxerOptPacketSize(188))
	}
	total := 4
	if api == 0 {
		total = len(s.pkts)
	}
	for rounds := 0; rounds <= twice; rounds++ {
		k := vrange(0, total)
		for i := 0; i < k; i++ {
			if api == 0 {
				dmx.NextPacket()
			} else {
				dmx.NextData()
			}
		}
		n, err := dmx.Rewind()
		vassert("C20.rewind.result", n == 0 && err == nil)
	}
	var got []*DemuxerData
	for k := 0; k < 10; k++ {
		d, err := dmx.NextData()
		if err == ErrNoMorePackets {
			break
		}
		vassert("C20.after.err", err == nil)
		got = append(got, d)
	}
	vassert("C20.after.same", sameSeq(ref, got))
	vreach("C20.rewind.end")
}

func snapshotBytes(b []byte) []byte { return append([]byte{}, b...) }

// HarnessC16Alias: every returned packet / data is deep-copied at delivery and compared again after every later
// call on the same demuxer and on a second demuxer sharing the process-wide buffer pool
func HarnessC16Alias(api int) {
	s := c08Stream()
	data := s.bytes()
	dmx := NewDemuxer(vCtx{}, newVReader(data), DemuxerOptPacketSize(188))
	other := NewDemuxer(vCtx{}, newVReader(data), DemuxerOptPacketSize(188))
	type snap struct {
		live []byte
		copy []byte
	}
	var snaps []snap
	check := func() {
		for _, sn := range snaps {
			vassert("C16.alias.stable", vBytesEq(sn.live, sn.copy))
		}
	}
	for k := 0; k < 8; k++ {
		if api == 0 {
			p, err := dmx.NextPacket()
			if err != nil {
				break
			}
			snaps = append(snaps, snap{p.Payload, snapshotBytes(p.Payload)})
			if p.AdaptationField != nil {
				snaps = append(snaps, snap{p.AdaptationField.TransportPrivateData, snapshotBytes(p.AdaptationField.TransportPrivateData)})
			}
		} else {
			d, err := dmx.NextData()
			if err != nil {
				break
			}
			if d.PES != nil {
				snaps = append(snaps, snap{d.PES.Data, snapshotBytes(d.PES.Data)})
				if oh := d.PES.Header.OptionalHeader; oh != nil {
					snaps = append(snaps, snap{oh.PrivateData, snapshotBytes(oh.PrivateData)})
					snaps = append(snaps, snap{oh.Extension2Data, snapshotBytes(oh.Extension2Data)})
				}
			}
			if d.FirstPacket != nil {
				snaps = append(snaps, snap{d.FirstPacket.Payload, snapshotBytes(d.FirstPacket.Payload)})
				if af := d.FirstPacket.AdaptationField; af != nil {
					snaps = append(snaps, snap{af.TransportPrivateData, snapshotBytes(af.TransportPrivateData)})
				}
			}
			if d.PMT != nil {
				for _, es := range d.PMT.ElementaryStreams {
					for _, ds := range es.ElementaryStreamDescriptors {
						snaps = append(snaps, snap{ds.UserDefined, snapshotBytes(ds.UserDefined)})
					}
				}
			}
		}
		check()
		other.NextData()
		check()
	}
	check()
	vreach("C16.alias.end")
}

// HarnessC20RewindLong: two PES PIDs, one of which has consumed 16 or 17 packets when the rewind happens, so that the
// continuity counters of packets left over from before the rewind would line up with the restarted stream
func HarnessC20RewindLong(auto int) {
	s := &sStream{}
	a1 := mkPESPattern(0x100, 20, true, 1)
	b1 := mkPESPattern(0x101, 16*184-14, true, 2) // exactly 16 packets
	a2 := mkPESPattern(0x100, 30, true, 3)
	b2 := mkPESPattern(0x101, 10, true, 4)
	a3 := mkPESPattern(0x100, 5, true, 5)
	pb1 := packetize(b1, 0, 184, false)
	s.add(a1, packetize(a1, 0, 184, false))
	s.add(b1, pb1)
	s.add(a2, packetize(a2, 1, 184, false))
	s.add(b2, packetize(b2, uint8(len(pb1)), 184, false))
	s.add(a3, packetize(a3, 2, 184, false))
	data := s.bytes()
	ref, err := drainReader(newVSeekReader(data), 188)
	vassert("C20.long.ref", err == nil && len(ref) == 5)
	r := newVSeekReader(data)
	var dmx *Demuxer
	if auto == 1 {
		dmx = NewDemuxer(vCtx{}, r)
	} else {
		dmx = NewDemuxer(vCtx{}, r, DemuxerOptPacketSize(188))
	}
	k := vrange(0, 5)
	for i := 0; i < k; i++ {
		dmx.NextData()
	}
	n, err := dmx.Rewind()
	vassert("C20.long.rewind", n == 0 && err == nil)
	var got []*DemuxerData
	for j := 0; j < 10; j++ {
		d, err := dmx.NextData()
		if err == ErrNoMorePackets {
			break
		}
		vassert("C20.long.err", err == nil)
		got = append(got, d)
	}
	vassert("C20.long.same", sameSeq(ref, got))
	vreach("C20.long.end")
}

// HarnessC16Pool: after demuxing a stream that contains units failing to parse (truncated PES, broken section), the
// process-wide buffer pool never hands the same buffer to two users at once
func HarnessC16Pool() {
	s := c08Stream()
	// a PES whose PES_packet_length announces more than arrives before the next unit
	bad := mkPESPattern(0x100, 10, true, 6)
	bad.bytes[4], bad.bytes[5] = 0x01, 0x00
	var pk [][]byte
	// every branch of parseData takes a buffer from the pool: a CAT unit (PID 1: private, produces no data), a unit on
	// an unknown PID that is neither PSI nor PES, the PSI and PES units of the stream, and the failing PES
	cat := &sUnit{pid: PIDCAT, kind: 3, bytes: []byte{0x00, 0x01, 0xb0, 0x05, 0x11, 0x22, 0x33, 0x44, 0x55}}
	junk := &sUnit{pid: 0x1abc, kind: 0, bytes: []byte{0x12, 0x34, 0x56, 0x78, 0x9a}}
	// units whose packets have the payload flag set but carry zero payload bytes (adaptation field of 183 bytes)
	zero := func(cc uint8) []byte {
		m := &mPacket{pid: 0x1abd, pusi: true, hasPayload: true, hasAF: true, cc: cc}
		m.af.stuffing = 182
		return refEncodePacket(m)
	}
	pk = append(pk, packetize(cat, 2, 184, false)...)
	pk = append(pk, zero(1))
	pk = append(pk, s.pkts...)
	pk = append(pk, zero(2))
	pk = append(pk, packetize(junk, 7, 184, false)...)
	pk = append(pk, zero(3))
	pk = append(pk, packetize(bad, 9, 184, false)...)
	tail := mkPESPattern(0x100, 4, true, 7)
	pk = append(pk, packetize(tail, 10, 184, false)...)
	var b []byte
	for _, p := range pk {
		b = append(b, p...)
	}
	_, ended := drainTolerant(b, 20)
	vassert("C16.pool.drained", ended)
	// take more items than the pool can hold after this stream: no item may come out twice (the order in which a
	// sync.Pool hands items back is not specified, so the whole content is drained rather than the top two compared)
	var items []*bytesPoolItem
	for k := 0; k < 8; k++ {
		items = append(items, bytesPool.get(8))
	}
	distinct := true
	for i := range items {
		for j := i + 1; j < len(items); j++ {
			distinct = distinct && items[i] != items[j]
		}
	}
	vassert("C16.pool.distinct", distinct)
	for _, it := range items {
		bytesPool.put(it)
	}
	vreach("C16.pool.end")
}

// HarnessC16Caller: the caller's byte slices are handed to the Muxer as sub-slices of a larger buffer (spare capacity
// behind them): neither the payload nor anything behind it is modified by WritePacket (short payload: the packet is
// padded by the muxer; exact fit) or by WriteData (payload spanning 1..3 packets), and the output is still correct
func HarnessC16Caller(kind, n int) {
	big := make([]byte, n+300)
	for i := range big {
		big[i] = byte(0x11 + i%0x60)
	}
	snap := append([]byte{}, big...)
	sink := newVSink()
	m := NewMuxer(vCtx{}, sink, MuxerOptTablesRetransmitPeriod(100))
	switch kind {
	case 0, 1, 2:
		mp := &mPacket{hasPayload: true, pid: 0x123, cc: vBits8(4)}
		if kind == 1 {
			mp.hasAF = true
			mp.af = mAF{hasPCR: true, pcrBase: vTS33(), pcrExt: vBits16(9)}
		}
		if kind == 2 {
			mp.hasAF = true
			mp.af = mAF{zeroLen: true}
		}
		mp.payload = big[:n]
		cnt, err := m.WritePacket(modelToPacket(mp))
		vassert("C16.caller.packet.err", err == nil && cnt == 188)
		vassert("C04.packet.bytes", vBytesEq(sink.buf, refEncodePacket(mp)))
	case 3:
		m.AddElementaryStream(PMTElementaryStream{ElementaryPID: 0x100, StreamType: StreamTypeH264Video})
		m.SetPCRPID(0x100)
		d := &MuxerData{PID: 0x100, PES: &PESData{Header: &PESHeader{StreamID: 0xe0}, Data: big[:n]}}
		_, err := m.WriteData(d)
		vassert("C16.caller.data.err", err == nil)
		vassert("C16.caller.data.slice", len(d.PES.Data) == n)
	}
	vassert("C16.caller.untouched", vBytesEq(big, snap))
	vreach("C16.caller.end")
}

// HarnessC20RewindMulti: one PSI unit delivers three tables at once (they wait in the Demuxer's data buffer); Rewind
// after any number of them has been handed out - the buffered rest must be forgotten, not replayed or skipped
func HarnessC20RewindMulti(auto int) {
	s := &sStream{}
	var secs []*mSection
	for k := 0; k < 3; k++ {
		ps := mkPAT(uint16(0x1000 + k))
		ps.ext, ps.version = uint16(0x1230+k), uint8(k)
		ps.pat.TransportStreamID = ps.ext
		ps.pat.Programs[0].ProgramNumber = uint16(k + 1)
		secs = append(secs, ps)
	}
	pat := mkPSI(0, 1, secs, 0, 0)
	s.add(pat, packetize(pat, 0, 184, true))
	e1 := mkPESPattern(0x100, 200, true, 1)
	s.add(e1, packetize(e1, 4, 184, false))
	data := s.bytes()
	ref, err := drainReader(newVSeekReader(data), 188)
	vassert("C20.multi.ref", err == nil && len(ref) == 4)
	r := newVSeekReader(data)
	var dmx *Demuxer
	if auto == 1 {
		dmx = NewDemuxer(vCtx{}, r)
	} else {
		dmx = NewDemuxer(vCtx{}, r, DemuxerOptPacketSize(188))
	}
	for rounds := 0; rounds < 2; rounds++ {
		k := vrange(0, 4)
		for i := 0; i < k; i++ {
			dmx.NextData()
		}
		n, err := dmx.Rewind()
		vassert("C20.multi.rewind", n == 0 && err == nil)
	}
	var got []*DemuxerData
	for j := 0; j < 10; j++ {
		d, err := dmx.NextData()
		if err == ErrNoMorePackets {
			break
		}
		vassert("C20.multi.err", err == nil)
		got = append(got, d)
	}
	vassert("C20.multi.count", len(got) == len(ref))
	vassert("C20.multi.same", sameSeq(ref, got))
	for i := 0; i < 3 && i < len(got); i++ {
		vassert("C20.multi.order", got[i].PAT != nil && got[i].PAT.TransportStreamID == uint16(0x1230+i))
	}
	vreach("C20.multi.end")
}
