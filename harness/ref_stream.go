package astits

// Reference multiplexer for the demuxer properties: units (PES packets, PSI section groups) are turned into
// 188-byte TS packets by an independent packetiser; the expected deliveries are derived from the unit list alone.

type sUnit struct {
	afPriv  []byte // transport private data carried in the adaptation field of the unit's first packet
	pid     uint16
	kind    int // 0 PES, 1 PAT, 2 PMT, 3 other PSI (SDT PID)
	bytes   []byte // the unit's payload bytes as carried in TS payloads (PSI: pointer_field + filler + sections)
	pes     *mPES
	secs    []*mSection
	npkts   int
	cc0     uint8 // continuity counter of the first packet
}

type sStream struct {
	pkts    [][]byte
	pktUnit []int
	units   []*sUnit
}

// mkPES: a PES unit with a PTS; bounded: PES_packet_length exact, else 0 (unbounded)
func mkPES(pid uint16, plen int, bounded bool) *sUnit {
	m := &mPES{streamID: 0xE0}
	m.opt = &mPESOpt{ptsdts: 2, pts: vTS33()}
	m.payload = vnondetBytes(plen)
	pl := 0
	if bounded {
		pl = refPESHeaderLen(m) - 6 + plen
	}
	return &sUnit{pid: pid, kind: 0, pes: m, bytes: refEncodePES(m, uint16(pl))}
}

// mkPESPattern: like mkPES with a concrete, recognisable payload (byte k of unit `seed` is 0x80|seed<<4|k%16, never a
// start code), for the fault-injection harnesses where mis-assembled payloads would otherwise be parsed symbolically
func mkPESPattern(pid uint16, plen int, bounded bool, seed int) *sUnit {
	m := &mPES{streamID: 0xE0}
	m.opt = &mPESOpt{ptsdts: 2, pts: vTS33()}
	m.payload = make([]byte, plen)
	for k := range m.payload {
		m.payload[k] = 0x80 | byte(seed&7)<<4 | byte(k%16)
	}
	pl := 0
	if bounded {
		pl = refPESHeaderLen(m) - 6 + plen
	}
	return &sUnit{pid: pid, kind: 0, pes: m, bytes: refEncodePES(m, uint16(pl))}
}

// mkPESRich: a PES unit whose optional header carries 16 bytes of PES private data and whose first packet carries
// transport private data in its adaptation field (both recognisable patterns)
func mkPESRich(pid uint16, plen int, seed int) *sUnit {
	u := mkPESPattern(pid, plen, true, seed)
	o := u.pes.opt
	o.hasExt = true
	o.ext.hasPriv = true
	o.ext.priv = make([]byte, 16)
	for k := range o.ext.priv {
		o.ext.priv[k] = 0x90 | byte(k)
	}
	u.bytes = refEncodePES(u.pes, uint16(refPESHeaderLen(u.pes)-6+plen))
	u.afPriv = []byte{0xB0 | byte(seed), 0xB1, 0xB2, 0xB3}
	return u
}

// mkPSI: a PSI unit: pointer_field ptr (filler bytes symbolic), the given sections, trailing 0xFF bytes
func mkPSI(pid uint16, kind int, secs []*mSection, ptr, trailing int) *sUnit {
	b := []byte{byte(ptr)}
	b = append(b, vnondetBytes(ptr)...)
	for _, s := range secs {
		sb, _ := refEncSection(s)
		b = append(b, sb...)
	}
	for i := 0; i < trailing; i++ {
		b = append(b, 0xff)
	}
	return &sUnit{pid: pid, kind: kind, secs: secs, bytes: b}
}

// mkPAT: a PAT announcing program 1 on pmtPID
func mkPAT(pmtPID uint16) *mSection {
	s := &mSection{tableID: 0, ssi: true, ext: vnondetU16(), version: vBits8(5), cni: true}
	s.pat = &PATData{TransportStreamID: s.ext, Programs: []*PATProgram{{ProgramNumber: 1, ProgramMapID: pmtPID}}}
	return s
}

func mkPMT(esPID uint16) *mSection {
	s := &mSection{tableID: 2, ssi: true, ext: 1, version: vBits8(5), cni: true}
	s.pmt = &PMTData{ProgramNumber: 1, PCRPID: esPID, ElementaryStreams: []*PMTElementaryStream{{StreamType: StreamTypeH264Video, ElementaryPID: esPID,
		ElementaryStreamDescriptors: []*Descriptor{{Tag: 0x90, Length: 3, UserDefined: []byte{0xD1, 0xD2, 0xD3}}}}}}
	return s
}

func mkSDT(n int) *mSection {
	s := &mSection{tableID: 0x42, ssi: true, private: true, ext: vnondetU16(), version: vBits8(5), cni: true}
	s.sdt = &SDTData{TransportStreamID: s.ext, OriginalNetworkID: vnondetU16()}
	for i := 0; i < n; i++ {
		s.sdt.Services = append(s.sdt.Services, &SDTDataService{ServiceID: vnondetU16(), RunningStatus: vBits8(3), HasEITSchedule: vnondetBool()})
	}
	return s
}

// packetize splits u.bytes into chunks: the first chunk has `first` bytes (<=184), the following ones 184, the last
// the rest. Room left in a packet is filled by adaptation-field stuffing (padFF: 0xFF payload padding in the last
// packet instead, as allowed for PSI).
func packetize(u *sUnit, cc0 uint8, first int, padFF bool) [][]byte {
	u.cc0 = cc0
	var out [][]byte
	rest := u.bytes
	cc := cc0
	k := 0
	for len(rest) > 0 {
		n := 184
		if k == 0 {
			n = first
		}
		if n > len(rest) {
			n = len(rest)
		}
		m := &mPacket{pusi: k == 0, pid: u.pid, hasPayload: true, cc: cc & 0xf}
		if k == 0 && len(u.afPriv) > 0 {
			// first packet carries an adaptation field with private data: it takes 3+len bytes of the packet
			m.hasAF = true
			m.af.hasPriv = true
			m.af.priv = u.afPriv
			if max := 184 - 3 - len(u.afPriv); n > max {
				n = max
			}
		}
		chunk := rest[:n]
		rest = rest[n:]
		room := 184 - n
		if k == 0 && len(u.afPriv) > 0 {
			m.payload = chunk
			m.af.stuffing = room - 3 - len(u.afPriv)
		} else if room > 0 && padFF && len(rest) == 0 {
			pl := append([]byte{}, chunk...)
			for i := 0; i < room; i++ {
				pl = append(pl, 0xff)
			}
			m.payload = pl
		} else {
			m.payload = chunk
			if room == 1 {
				m.hasAF = true
				m.af.zeroLen = true
			} else if room > 1 {
				m.hasAF = true
				m.af.stuffing = room - 2
			}
		}
		out = append(out, refEncodePacket(m))
		cc++
		k++
	}
	u.npkts = k
	return out
}

func (s *sStream) add(u *sUnit, pkts [][]byte) {
	idx := len(s.units)
	s.units = append(s.units, u)
	for _, p := range pkts {
		s.pkts = append(s.pkts, p)
		s.pktUnit = append(s.pktUnit, idx)
	}
}

func (s *sStream) bytes() []byte {
	var b []byte
	for _, p := range s.pkts {
		b = append(b, p...)
	}
	return b
}

// expectedOrder: the order in which units are delivered according to the stream's own structure: a unit is flushed
// when the next payload_unit_start of its PID arrives; PAT and (already announced) PMT units as soon as their last
// packet has arrived; everything still pending at end of stream in ascending PID order.
// Returned: unit indices in delivery order, and for each the index of the packet whose arrival triggers it (-1: EOF).
func (s *sStream) expectedOrder() (order []int, trigger []int) {
	pending := map[uint16]int{}
	seen := map[int]int{}
	pmtKnown := map[uint16]bool{}
	done := map[int]bool{}
	for i, ui := range s.pktUnit {
		u := s.units[ui]
		if seen[ui] == 0 {
			// first packet of a unit: flush the previous unit of this PID
			if prev, ok := pending[u.pid]; ok && !done[prev] {
				order = append(order, prev)
				trigger = append(trigger, i)
				done[prev] = true
			}
			pending[u.pid] = ui
		}
		seen[ui]++
		if seen[ui] == u.npkts && (u.kind == 1 || (u.kind == 2 && pmtKnown[u.pid])) {
			order = append(order, ui)
			trigger = append(trigger, i)
			done[ui] = true
			delete(pending, u.pid)
			if u.kind == 1 {
				for _, sec := range u.secs {
					for _, p := range sec.pat.Programs {
						if p.ProgramNumber > 0 {
							pmtKnown[p.ProgramMapID] = true
						}
					}
				}
			}
		}
	}
	// EOF drain in ascending PID order
	for {
		best := -1
		for pid, ui := range pending {
			if done[ui] {
				continue
			}
			if best < 0 || pid < s.units[best].pid {
				best = ui
			}
		}
		if best < 0 {
			break
		}
		order = append(order, best)
		trigger = append(trigger, -1)
		done[best] = true
	}
	return
}

// checkUnit compares the data delivered for one unit (PSI: one DemuxerData per section) and returns how many
// DemuxerData it accounts for
func checkUnit(u *sUnit, ds []*DemuxerData) int {
	if u.kind == 0 {
		vassert("C02.unit.count", len(ds) >= 1)
		d := ds[0]
		vassert("C02.pes.kind", d.PES != nil && d.PID == u.pid && d.PAT == nil && d.PMT == nil)
		vassert("C02.pes.payload", vBytesEq(d.PES.Data, u.pes.payload))
		vassert("C02.pes.header", d.PES.Header.StreamID == u.pes.streamID && d.PES.Header.OptionalHeader != nil &&
			d.PES.Header.OptionalHeader.PTS != nil && d.PES.Header.OptionalHeader.PTS.Base == int64(u.pes.opt.pts))
		vassert("C12.unit.header", d.PES.Header.StreamID == u.pes.streamID && d.PES.Header.OptionalHeader != nil &&
			d.PES.Header.OptionalHeader.PTS != nil && d.PES.Header.OptionalHeader.PTS.Base == int64(u.pes.opt.pts) && vBytesEq(d.PES.Data, u.pes.payload))
		if len(u.afPriv) > 0 {
			vassert("C02.pes.afpriv", d.FirstPacket.AdaptationField != nil && vBytesEq(d.FirstPacket.AdaptationField.TransportPrivateData, u.afPriv))
		}
		if u.pes.opt.hasExt && u.pes.opt.ext.hasPriv {
			vassert("C02.pes.hdrpriv", vBytesEq(d.PES.Header.OptionalHeader.PrivateData, u.pes.opt.ext.priv))
		}
		vassert("C02.pes.firstpacket", d.FirstPacket != nil && d.FirstPacket.Header.PID == u.pid && d.FirstPacket.Header.PayloadUnitStartIndicator &&
			d.FirstPacket.Header.ContinuityCounter == u.cc0&0xf)
		return 1
	}
	vassert("C02.unit.count", len(ds) >= len(u.secs))
	for i, sec := range u.secs {
		d := ds[i]
		vassert("C02.psi.pid", d.PID == u.pid && d.PES == nil)
		c13CheckData(&PSISectionSyntaxData{PAT: d.PAT, PMT: d.PMT, SDT: d.SDT, NIT: d.NIT, EIT: d.EIT, TOT: d.TOT}, sec)
	}
	return len(u.secs)
}

// drainAndCheck pulls NextData until ErrNoMorePackets and compares with the expected delivery order.
// When r is given, the reader position after each PAT/PMT delivery is compared with the end of the triggering packet.
func drainAndCheck(dmx *Demuxer, s *sStream, r *vReader) {
	order, trigger := s.expectedOrder()
	for k, ui := range order {
		u := s.units[ui]
		n := 1
		if u.kind != 0 {
			n = len(u.secs)
		}
		var ds []*DemuxerData
		for j := 0; j < n; j++ {
			d, err := dmx.NextData()
			vassert("C02.next.err", err == nil)
			if u.kind == 0 {
				// (C12) a PES unit is recognised and decoded however its bytes are spread over TS packets
				vassert("C12.unit.delivered", err == nil && d != nil && d.PES != nil)
			}
			ds = append(ds, d)
			if j == 0 && r != nil && (u.kind == 1 || u.kind == 2) && trigger[k] >= 0 {
				// returned by the call that reads its final packet, without consuming any further byte
				vassert("C02.noreadahead", r.pos == 188*(trigger[k]+1))
			}
		}
		checkUnit(u, ds)
	}
	_, err := dmx.NextData()
	vassert("C02.eof", err == ErrNoMorePackets)
	_, err = dmx.NextData()
	vassert("C02.eof.sticky", err == ErrNoMorePackets)
}
