package astits

// Muxer harnesses shared by C04, C05, C17 and C01: operation histories from NewMuxer with symbolic arguments, checked
// after every call against a ghost model written from the property texts and an independent TS packet decoder.

type gES struct {
	pid    uint16
	typ    StreamType
	hasCC  bool
	lastCC uint8
}

type gMux struct {
	sink   *vSink
	m      *Muxer
	period int
	since  int // WriteData calls (on known PIDs) since the last emission of tables; starts at period
	es     []gES
	pcrPID uint16
	dirty  bool // stream set or PCR PID changed since the last PMT emission

	pmtSeen    bool
	pmtVersion uint8
	patSeen    bool
	patVersion uint8
	patCC      gES
	pmtCC      gES
	pos        int // bytes of the sink already examined

	// bookkeeping for the regions of recorded findings
	tablesFailed bool // a WriteTables/forced emission failed since the last successful one (F5, F13)
	afOverflow   bool // a WriteData whose AF left no room for the PES header happened on some PID (F4)
	autoPID      bool // some stream got an automatically assigned PID (F3)
	removed      []uint16
	readded      bool // a PID was removed and added again (F14)
	rawPackets   bool // caller-built packets were written (WritePacket): outside the C01 round trip

	// what was written, for the demux round trip (C01)
	written []gUnit
}

type gUnit struct {
	pid      uint16
	isTables bool
	payload  []byte
	streamID uint8
	hasPTS   bool
	pts      uint64
	hasDTS   bool
	dts      uint64
	hasAF    bool
	rai      bool
	hasPCR   bool
	pcrBase  uint64
	pcrExt   uint16
	priv     []byte
	tPCR     uint16 // tables unit: PCR PID and streams at the time of the emission
	tES      []gES
}

func newGMux(period int) *gMux {
	g := &gMux{sink: newVSink(), period: period, since: period}
	g.m = NewMuxer(vCtx{}, g.sink, MuxerOptTablesRetransmitPeriod(period))
	return g
}

func (g *gMux) find(pid uint16) int {
	for i := range g.es {
		if g.es[i].pid == pid {
			return i
		}
	}
	return -1
}

func isReservedPID(pid uint16) bool { return pid < 0x20 || pid == 0x1fff || pid == 0x1000 }

// ---- independent decoder of what the sink received ----

type dPacket struct {
	pusi, hasAF, hasPayload, tei bool
	pid                         uint16
	cc                          uint8
	afLen                       int
	payload                     []byte
	af                          []byte
}

// decodeTS checks the structural consistency of one 188-byte packet (C04) and returns its parts
func (g *gMux) decodeTS(b []byte) dPacket {
	var p dPacket
	vassert("C04.sync", b[0] == 0x47)
	p.tei = b[1]&0x80 != 0
	p.pusi = b[1]&0x40 != 0
	p.pid = uint16(b[1]&0x1f)<<8 | uint16(b[2])
	afc := b[3] >> 4 & 3
	p.cc = b[3] & 0xf
	vassert("C04.afc", afc != 0)
	afc = uint8(vconcrete(int(afc)))
	p.hasAF = afc&2 != 0
	p.hasPayload = afc&1 != 0
	off := 4
	if p.hasAF {
		p.afLen = vconcrete(int(b[4]))
		vassert("C04.aflen", 5+p.afLen <= 188 && (p.hasPayload || p.afLen == 183))
		p.af = b[5 : 5+p.afLen]
		off = 5 + p.afLen
	}
	if p.hasPayload {
		vassert("C04.payload.nonempty", off < 188)
		p.payload = b[off:188]
	}
	return p
}

// afStuffingOK: after the flags byte and the optional fields announced by it (PCR and private data are what the
// harness uses), the rest of the adaptation field is 0xFF
func afFieldsLen(af []byte) int {
	if len(af) == 0 {
		return 0
	}
	n := 1
	fl := af[0]
	if fl&0x10 != 0 {
		n += 6
	}
	if fl&0x08 != 0 {
		n += 6
	}
	if fl&0x04 != 0 {
		n++
	}
	if fl&0x02 != 0 {
		n += 1 + vconcrete(int(af[n]))
	}
	if fl&0x01 != 0 {
		n += 1 + vconcrete(int(af[n]))
	}
	return n
}

// expectCC asserts the continuity counter of a payload packet on the given PID state
func (g *gMux) expectCC(e *gES, cc uint8, kid string, region bool) {
	if e.hasCC {
		vassertK("C05.cc.next", kid, region, cc == (e.lastCC+1)&0xf)
	}
	e.hasCC = true
	e.lastCC = cc
}

// checkTables consumes the PAT+PMT pair at the current position and checks content, versions and counters (C17, C05, C09)
func (g *gMux) checkTables(b []byte) {
	pat := g.decodeTS(b[:188])
	vassert("C17.pat.pid", pat.pid == 0 && pat.pusi && pat.hasPayload && !pat.tei)
	g.expectCC(&g.patCC, pat.cc, "F5", g.tablesFailed)
	// PAT: pointer_field 0, one program: 1 -> 0x1000
	ps := pat.payload
	vassert("C17.pat.pointer", ps[0] == 0)
	sec := ps[1:]
	vassert("C17.pat.section", sec[0] == 0x00 && sec[1]&0x80 != 0 && int(sec[1]&0xf)<<8|int(sec[2]) == 13)
	patVer := sec[5] >> 1 & 0x1f
	vassert("C17.pat.cni", sec[5]&1 == 1 && sec[6] == 0 && sec[7] == 0)
	vassert("C17.pat.program", sec[8] == 0 && sec[9] == 1 && uint16(sec[10]&0x1f)<<8|uint16(sec[11]) == 0x1000)
	vassert("C09.out.pat.crc", uint32(sec[12])<<24|uint32(sec[13])<<16|uint32(sec[14])<<8|uint32(sec[15]) == computeCRC32(sec[:12]))
	for i := 16; i < len(sec); i++ {
		vassert("C04.pat.padding", sec[i] == 0xff)
	}
	if g.patSeen {
		vassert("C17.pat.version.stable", patVer == g.patVersion)
	}
	g.patSeen, g.patVersion = true, patVer

	pmt := g.decodeTS(b[188:376])
	vassert("C17.pmt.pid", pmt.pid == 0x1000 && pmt.pusi && pmt.hasPayload && !pmt.tei)
	g.expectCC(&g.pmtCC, pmt.cc, "F13", g.tablesFailed)
	pp := pmt.payload
	vassert("C17.pmt.pointer", pp[0] == 0)
	s := pp[1:]
	secLen := vconcrete(int(s[1]&0xf)<<8 | int(s[2]))
	vassert("C17.pmt.header", s[0] == 0x02 && s[1]&0x80 != 0 && s[3] == 0 && s[4] == 1)
	vassert("C09.out.pmt.length", secLen == 9+5*len(g.es)+4 && 3+secLen <= len(s))
	ver := s[5] >> 1 & 0x1f
	vassert("C17.pmt.cni", s[5]&1 == 1 && s[6] == 0 && s[7] == 0)
	vassert("C17.pmt.pcrpid", uint16(s[8]&0x1f)<<8|uint16(s[9]) == g.pcrPID)
	vassert("C17.pmt.proginfo", s[10]&0xf == 0 && s[11] == 0)
	for i := range g.es {
		o := 12 + 5*i
		vassert("C17.pmt.stream", s[o] == uint8(g.es[i].typ) && uint16(s[o+1]&0x1f)<<8|uint16(s[o+2]) == g.es[i].pid && s[o+3]&0xf == 0 && s[o+4] == 0)
	}
	end := 3 + secLen
	vassert("C09.out.pmt.crc", uint32(s[end-4])<<24|uint32(s[end-3])<<16|uint32(s[end-2])<<8|uint32(s[end-1]) == computeCRC32(s[:end-4]))
	for i := end; i < len(s); i++ {
		vassert("C04.pmt.padding", s[i] == 0xff)
	}
	if g.pmtSeen {
		if g.dirty {
			vassertK("C17.pmt.version.bump", "F13", g.tablesFailed, ver == (g.pmtVersion+1)&0x1f)
		} else {
			vassertK("C17.pmt.version.same", "F13", g.tablesFailed, ver == g.pmtVersion)
		}
	}
	g.pmtSeen, g.pmtVersion = true, ver
	g.dirty = false
	g.tablesFailed = false
	// what the program map looked like at this emission (compared with what the Demuxer decodes: C01, C13)
	tu := gUnit{isTables: true, tPCR: g.pcrPID}
	for _, e := range g.es {
		tu.tES = append(tu.tES, gES{pid: e.pid, typ: e.typ})
	}
	g.written = append(g.written, tu)
}

// ---- operations ----

func (g *gMux) opAdd(pid uint16, typ StreamType) {
	err := g.m.AddElementaryStream(PMTElementaryStream{ElementaryPID: pid, StreamType: typ})
	g.noOutput("C04.add.nooutput")
	if pid != 0 && g.find(pid) >= 0 {
		vassert("C17.add.duplicate", err == ErrPIDAlreadyExists)
		return
	}
	vassert("C17.add.err", err == nil)
	got := g.m.pmt.ElementaryStreams[len(g.m.pmt.ElementaryStreams)-1].ElementaryPID
	if pid == 0 {
		g.autoPID = true
		vassertK("C17.add.autopid", "F3", true, !isReservedPID(got) && g.find(got) < 0)
		pid = got
	} else {
		vassert("C17.add.pid", got == pid)
	}
	for _, r := range g.removed {
		if r == pid {
			g.readded = true
		}
	}
	g.es = append(g.es, gES{pid: pid, typ: typ})
	g.dirty = true
}

func (g *gMux) opRemove(pid uint16) {
	err := g.m.RemoveElementaryStream(pid)
	g.noOutput("C04.remove.nooutput")
	i := g.find(pid)
	if i < 0 {
		vassert("C17.remove.unknown", err == ErrPIDNotFound)
		return
	}
	vassert("C17.remove.err", err == nil)
	g.es = append(append([]gES{}, g.es[:i]...), g.es[i+1:]...)
	g.removed = append(g.removed, pid)
	g.dirty = true
}

func (g *gMux) opSetPCR(pid uint16) {
	g.m.SetPCRPID(pid)
	g.noOutput("C04.setpcr.nooutput")
	g.pcrPID = pid
	g.dirty = true
}

func (g *gMux) noOutput(id string) {
	vassert(id, len(g.sink.buf) == g.pos)
}

// pmtFits: PMT section of the current stream list fits one packet (no descriptors in these harnesses)
func (g *gMux) tablesPossible() bool {
	return g.find(g.pcrPID) >= 0
}

func (g *gMux) opWriteTables() {
	n, err := g.m.WriteTables()
	out := g.sink.buf[g.pos:]
	vassert("C04.tables.count", n == len(out))
	if !g.tablesPossible() {
		vassert("C17.tables.invalidpcr", err != nil)
		vassert("C04.tables.rejected.nooutput", len(out) == 0)
		g.tablesFailed = true
		return
	}
	vassert("C17.tables.err", err == nil)
	vassert("C04.tables.len", len(out) == 376)
	g.checkTables(out)
	g.pos = len(g.sink.buf)
}

// vMuxData draws a MuxerData: afCase 0 none, 1 RAI flag symbolic + PCR, 2 private data (3 bytes) + RAI, 4 private-data flag without data, 3 big private
// data (leaves no room for the PES header); hdrCase 0 no timestamps, 1 PTS, 2 PTS+DTS
func vMuxData(pid uint16, afCase, hdrCase, plen int) (*MuxerData, gUnit) {
	u := gUnit{pid: pid}
	d := &MuxerData{PID: pid}
	switch afCase {
	case 1:
		u.hasAF, u.rai, u.hasPCR = true, vnondetBool(), true
		u.pcrBase, u.pcrExt = vTS33(), vBits16(9)
		d.AdaptationField = &PacketAdaptationField{RandomAccessIndicator: u.rai, HasPCR: true, PCR: &ClockReference{Base: int64(u.pcrBase), Extension: int64(u.pcrExt)}}
	case 2:
		u.hasAF, u.rai = true, vnondetBool()
		u.priv = vnondetBytes(3)
		d.AdaptationField = &PacketAdaptationField{RandomAccessIndicator: u.rai, HasTransportPrivateData: true, TransportPrivateDataLength: 3, TransportPrivateData: u.priv}
	case 3:
		u.hasAF = true
		u.priv = vnondetBytes(175)
		d.AdaptationField = &PacketAdaptationField{HasTransportPrivateData: true, TransportPrivateDataLength: 175, TransportPrivateData: u.priv}
	case 10:
		// an adaptation field as the Demuxer hands it out (PCR only, Length already set to 7): the muxer adds stuffing
		// and must write the length of what it emits, not the stale field
		u.hasAF, u.rai, u.hasPCR = true, vnondetBool(), true
		u.pcrBase, u.pcrExt = vTS33(), vBits16(9)
		d.AdaptationField = &PacketAdaptationField{Length: 7, RandomAccessIndicator: u.rai, HasPCR: true, PCR: &ClockReference{Base: int64(u.pcrBase), Extension: int64(u.pcrExt)}}
	case 9:
		// private data so long that the adaptation field alone exceeds a packet (F4 region as well)
		u.hasAF = true
		u.priv = vnondetBytes(190)
		d.AdaptationField = &PacketAdaptationField{HasTransportPrivateData: true, TransportPrivateDataLength: 190, TransportPrivateData: u.priv}
	case 4:
		// private-data flag set, no private data bytes
		u.hasAF, u.rai = true, vnondetBool()
		d.AdaptationField = &PacketAdaptationField{RandomAccessIndicator: u.rai, HasTransportPrivateData: true, TransportPrivateDataLength: 0, TransportPrivateData: []byte{}}
	case 5, 6:
		// private data sized so that the PES header fills the first packet exactly (5) / misses by one byte (6)
		hdr := []int{9, 14, 19}[hdrCase]
		n := 181 - hdr
		if afCase == 6 {
			n++
		}
		u.hasAF = true
		u.priv = vnondetBytes(n)
		d.AdaptationField = &PacketAdaptationField{HasTransportPrivateData: true, TransportPrivateDataLength: n, TransportPrivateData: u.priv}
	case 7, 8:
		// adaptation field extension with only the legal time window (7) / only the piecewise rate (8)
		u.hasAF, u.rai = true, vnondetBool()
		x := &PacketAdaptationExtensionField{}
		if afCase == 7 {
			x.HasLegalTimeWindow, x.LegalTimeWindowIsValid, x.LegalTimeWindowOffset = true, vnondetBool(), vBits16(15)
		} else {
			x.HasPiecewiseRate, x.PiecewiseRate = true, vBits32(22)
		}
		d.AdaptationField = &PacketAdaptationField{RandomAccessIndicator: u.rai, HasAdaptationExtensionField: true, AdaptationExtensionField: x}
	}
	oh := &PESOptionalHeader{MarkerBits: 2}
	switch hdrCase {
	case 1:
		u.hasPTS, u.pts = true, vTS33()
		oh.PTSDTSIndicator = PTSDTSIndicatorOnlyPTS
		oh.PTS = &ClockReference{Base: int64(u.pts)}
	case 2:
		u.hasPTS, u.pts, u.hasDTS, u.dts = true, vTS33(), true, vTS33()
		oh.PTSDTSIndicator = PTSDTSIndicatorBothPresent
		oh.PTS = &ClockReference{Base: int64(u.pts)}
		oh.DTS = &ClockReference{Base: int64(u.dts)}
	}
	u.payload = vnondetBytes(plen)
	d.PES = &PESData{Header: &PESHeader{OptionalHeader: oh}, Data: u.payload}
	return d, u
}

func (g *gMux) opWriteData(d *MuxerData, u gUnit) {
	n, err := g.m.WriteData(d)
	out := g.sink.buf[g.pos:]
	vassert("C04.data.count", n == len(out))
	vassert("C04.data.whole", len(out)%188 == 0)
	i := g.find(d.PID)
	if i < 0 {
		vassert("C04.data.unknownpid", err == ErrPIDNotFound && len(out) == 0)
		return
	}
	e := &g.es[i]
	g.since++
	force := u.hasAF && u.rai && d.PID == g.pcrPID
	due := force || g.since >= g.period
	off := 0
	if due && !g.tablesPossible() {
		vassert("C17.data.tables.invalidpcr", err != nil && len(out) == 0)
		g.tablesFailed = true
		return
	}
	vassert("C01.data.err", err == nil)
	tablesFirst := len(out) >= 376 && uint16(out[1]&0x1f)<<8|uint16(out[2]) == 0 && uint16(out[189]&0x1f)<<8|uint16(out[190]) == 0x1000
	if due {
		vassert("C17.data.tables.due", tablesFirst)
	}
	if tablesFirst {
		g.checkTables(out[:376])
		g.since = 0
		off = 376
	}
	// the PES packets of the unit
	npk := (len(out) - off) / 188
	// F4 region: the first-packet adaptation field leaves fewer bytes than the PES header needs
	f4 := false
	if u.hasAF && len(u.priv) > 0 {
		hdr := 9
		if u.hasPTS {
			hdr += 5
		}
		if u.hasDTS {
			hdr += 5
		}
		f4 = 181-len(u.priv) < hdr
	}
	vassertK("C01.data.somepackets", "F4", f4, npk >= 1)
	var pes []byte
	firstPayload := true
	for k := 0; k < npk; k++ {
		p := g.decodeTS(out[off+188*k : off+188*(k+1)])
		vassert("C04.data.pid", p.pid == d.PID && !p.tei)
		if f4 && k == 0 && p.hasAF && !p.hasPayload {
			// (not what the current code does, but consistent with C04:) an adaptation field too large to share a
			// packet with the PES header may travel in a packet of its own: no payload, no unit start, counter untouched
			vassert("C04.data.afcarrier", !p.pusi)
			continue
		}
		vassert("C04.data.haspayload", p.hasPayload)
		g.expectCC(e, p.cc, "F4", f4 || g.afOverflow)
		vassert("C04.data.pusi", p.pusi == firstPayload)
		if p.hasAF && p.afLen > 0 {
			fl := afFieldsLen(p.af)
			for j := fl; j < p.afLen; j++ {
				vassert("C04.data.stuffing", p.af[j] == 0xff)
			}
			if firstPayload && u.hasAF {
				vassertK("C01.data.af.first", "F4", f4, p.pusi)
				vassert("C01.data.af.rai", (p.af[0]&0x40 != 0) == u.rai)
				if u.hasPCR {
					vassert("C01.data.af.pcr", p.af[0]&0x10 != 0 && refGet(p.af, 8, 33) == u.pcrBase && refGet(p.af, 8+39, 9) == uint64(u.pcrExt))
				}
				if len(u.priv) > 0 {
					vassertK("C01.data.af.priv", "F4", f4, p.af[0]&0x02 != 0 && int(p.af[1]) == len(u.priv) && vBytesEq(p.af[2:2+len(u.priv)], u.priv))
				}
			} else {
				vassert("C04.data.af.onlystuffing", p.af[0] == 0)
			}
		}
		if firstPayload {
			vassert("C04.data.startcode", len(p.payload) >= 6 && p.payload[0] == 0 && p.payload[1] == 0 && p.payload[2] == 1)
		}
		firstPayload = false
		pes = append(pes, p.payload...)
	}
	if f4 {
		g.afOverflow = true
	}
	if npk >= 1 {
		// PES header and payload (C01, C12)
		sid := pes[3]
		vassert("C01.data.streamid", sid == e.typ.ToPESStreamID())
		hl := 9 + vconcrete(int(pes[8]))
		vassert("C01.data.hdrlen", hl <= len(pes))
		pl := int(pes[4])<<8 | int(pes[5])
		vassert("C12.data.peslen", pl == len(pes)-6 || (pl == 0 && (refIsVideoID(sid) || len(pes)-6 > 65535)))
		vassert("C01.data.ptsdts", pes[7]>>6 == map[bool]uint8{false: 0, true: 2}[u.hasPTS]|map[bool]uint8{false: 0, true: 1}[u.hasDTS])
		if u.hasPTS {
			vassert("C01.data.pts", refGet(pes, 72+4, 3)<<30|refGet(pes, 72+8, 15)<<15|refGet(pes, 72+24, 15) == u.pts)
		}
		if u.hasDTS {
			vassert("C01.data.dts", refGet(pes, 112+4, 3)<<30|refGet(pes, 112+8, 15)<<15|refGet(pes, 112+24, 15) == u.dts)
		}
		vassert("C01.data.payload", vBytesEq(pes[hl:], u.payload))
		u.streamID = sid
		g.written = append(g.written, u)
	}
	g.pos = len(g.sink.buf)
}

// opWritePacket: a caller-built packet; oversize payloads must be rejected without leaving bytes behind
func (g *gMux) opWritePacket(payloadLen int) {
	g.opWritePacketAF(payloadLen, 0)
}

// opWritePacketAF: afKind 0 none, 1 PCR + 2 stuffing bytes, 2 one-byte adaptation field, 3 private data (5 bytes), 4 private-data flag with empty data;
// over = how many bytes the payload exceeds the room left by header and adaptation field
func (g *gMux) opWritePacketAF(payloadLen, afKind int) {
	g.rawPackets = true
	m := &mPacket{hasPayload: true}
	vModelHeader(m)
	room := 184
	switch afKind {
	case 1:
		m.hasAF = true
		m.af = mAF{hasPCR: true, pcrBase: vTS33(), pcrExt: vBits16(9), stuffing: 2}
		room = 184 - 1 - refAFLen(&m.af)
	case 2:
		m.hasAF = true
		m.af = mAF{zeroLen: true}
		room = 183
	case 3:
		m.hasAF = true
		m.af = mAF{hasPriv: true, priv: vnondetBytes(5)}
		room = 184 - 1 - refAFLen(&m.af)
	case 4:
		// transport_private_data_flag set with transport_private_data_length 0 (legal, unusual)
		m.hasAF = true
		m.af = mAF{hasPriv: true, priv: []byte{}, rai: vnondetBool()}
		room = 184 - 1 - refAFLen(&m.af)
	case 5, 6, 7:
		// adaptation field extension: legal time window only / piecewise rate only / seamless splice only
		m.hasAF = true
		m.af = mAF{hasExt: true}
		m.af.ext = mAFExt{hasLTW: afKind == 5, hasPW: afKind == 6, hasSS: afKind == 7, ltwValid: vnondetBool(), ltwOffset: vBits16(15), pwRate: vBits32(22), spliceType: vBits8(4), dts: vTS33()}
		room = 184 - 1 - refAFLen(&m.af)
	}
	if afKind != 0 {
		// payloadLen is given relative to the room: 184 = exact fit, 185 = one byte over, ...
		payloadLen = room + (payloadLen - 184)
	}
	m.payload = vnondetBytes(payloadLen)
	n, err := g.m.WritePacket(modelToPacket(m))
	out := g.sink.buf[g.pos:]
	if payloadLen > room {
		vassert("C04.packet.oversize.err", err != nil)
		vassertK("C04.packet.oversize.nooutput", "F6", true, len(out) == 0 && n == 0)
	} else {
		vassert("C04.packet.err", err == nil)
		vassert("C04.packet.count", n == 188 && len(out) == 188)
		vassert("C04.packet.bytes", vBytesEq(out, refEncodePacket(m)))
	}
	g.pos = len(g.sink.buf)
}

// demuxAll feeds everything the sink received to a fresh Demuxer and compares with what was written (C01)
func (g *gMux) demuxAll() {
	if g.rawPackets || g.afOverflow {
		// caller-built packets are outside C01; histories that ran into the recorded finding F4 (reported by the
		// assertions above) produce streams a demuxer cannot map back to the calls
		return
	}
	dmx := NewDemuxer(vCtx{}, newVReader(g.sink.buf), DemuxerOptPacketSize(188))
	// expected per-PID sequences: units are delivered when the next unit of the PID starts or at end of stream
	var got []*DemuxerData
	for {
		d, err := dmx.NextData()
		if err == ErrNoMorePackets {
			break
		}
		vassert("C01.demux.err", err == nil)
		got = append(got, d)
	}
	// tables: one PAT and one PMT per emission, in emission order; PES per PID in order
	nt, np := 0, 0
	for _, u := range g.written {
		if u.isTables {
			nt++
		} else {
			np++
		}
	}
	gt, gp := 0, 0
	for _, d := range got {
		if d.PAT != nil || d.PMT != nil {
			gt++
		}
		if d.PES != nil {
			gp++
		}
	}
	vassert("C01.demux.tables.count", gt == 2*nt)
	// every decoded PMT describes the streams and the PCR PID configured when it was emitted (in emission order)
	ti := 0
	for _, d := range got {
		if d.PMT == nil {
			continue
		}
		for ti < len(g.written) && !g.written[ti].isTables {
			ti++
		}
		if ti >= len(g.written) {
			break
		}
		tu := g.written[ti]
		ti++
		ok := d.PMT.PCRPID == tu.tPCR && len(d.PMT.ElementaryStreams) == len(tu.tES)
		if ok {
			for i, e := range tu.tES {
				ok = ok && d.PMT.ElementaryStreams[i].ElementaryPID == e.pid && d.PMT.ElementaryStreams[i].StreamType == e.typ
			}
		}
		vassert("C01.demux.pmt.content", ok)
		vassert("C13.mux.pmt.content", ok)
	}
	vassertK("C01.demux.pes.count", "F14", g.readded, gp == np)
	if g.readded {
		return
	}
	// per PID order and content
	for _, e := range g.allPIDs() {
		var want []gUnit
		for _, u := range g.written {
			if !u.isTables && u.pid == e {
				want = append(want, u)
			}
		}
		k := 0
		for _, d := range got {
			if d.PES == nil || d.PID != e {
				continue
			}
			vassert("C01.demux.pes.extra", k < len(want))
			if k >= len(want) {
				break
			}
			u := want[k]
			k++
			vassert("C01.demux.pes.payload", vBytesEq(d.PES.Data, u.payload))
			vassert("C01.demux.pes.streamid", d.PES.Header.StreamID == u.streamID)
			oh := d.PES.Header.OptionalHeader
			vassert("C01.demux.pes.pts", oh != nil && (oh.PTS != nil) == u.hasPTS && (!u.hasPTS || oh.PTS.Base == int64(u.pts)))
			vassert("C01.demux.pes.dts", (oh.DTS != nil) == u.hasDTS && (!u.hasDTS || oh.DTS.Base == int64(u.dts)))
			fp := d.FirstPacket
			if u.hasAF {
				af := fp.AdaptationField
				vassert("C01.demux.af", af != nil && af.RandomAccessIndicator == u.rai && af.HasPCR == u.hasPCR)
				if u.hasPCR {
					vassert("C01.demux.af.pcr", af.PCR != nil && af.PCR.Base == int64(u.pcrBase) && af.PCR.Extension == int64(u.pcrExt))
				}
				if len(u.priv) > 0 {
					vassert("C01.demux.af.priv", vBytesEq(af.TransportPrivateData, u.priv))
				}
			}
		}
		vassert("C01.demux.pes.missing", k == len(want))
	}
}

func (g *gMux) allPIDs() []uint16 {
	var ps []uint16
	for _, u := range g.written {
		if u.isTables {
			continue
		}
		seen := false
		for _, p := range ps {
			if p == u.pid {
				seen = true
			}
		}
		if !seen {
			ps = append(ps, u.pid)
		}
	}
	return ps
}

// ---- harnesses ----

var muxPayloadLens = []int{1, 2, 150, 164, 165, 170, 175, 176, 177, 183, 184, 185, 190, 350, 360, 368, 369, 372}

// HarnessMuxWriteData: one configured stream (+ optionally a second one), tables possibly emitted before, then one
// WriteData with every combination of first-packet adaptation field, timestamps and payload length
func HarnessMuxWriteData(afCase, hdrCase, lenIdx, prior int) {
	g := newGMux(3)
	pid := vBits16(13)
	vassume(!isReservedPID(pid))
	typ := StreamType(vnondetU8())
	g.opAdd(pid, typ)
	g.opSetPCR(pid)
	plen := muxPayloadLens[lenIdx]
	for k := 0; k < prior; k++ {
		d0, u0 := vMuxData(pid, 0, 1, 10)
		g.opWriteData(d0, u0)
	}
	d, u := vMuxData(pid, afCase, hdrCase, plen)
	g.opWriteData(d, u)
	if d.AdaptationField != nil && afCase != 3 {
		vassert("C16.muxer.stuffingreset", d.AdaptationField.StuffingLength == 0)
	}
	vassert("C16.muxer.payload.untouched", vBytesEq(d.PES.Data, u.payload))
	g.demuxAll()
	vreach("mux.writedata.end")
}

// HarnessMuxHistory: every operation sequence of the given length over the alphabet, arguments symbolic
func HarnessMuxHistory(steps, period int) {
	g := newGMux(period)
	// PIDs are concrete here (their values only matter through equality); HarnessMuxWriteData has a symbolic PID
	pidA, pidB := uint16(0x100), uint16(0x1ffe)
	for s := 0; s < steps; s++ {
		switch vrange(0, 7) {
		case 0:
			g.opAdd([]uint16{pidA, pidB}[vrange(0, 1)], StreamType(vnondetU8()))
		case 1:
			g.opAdd(0, StreamTypeH264Video)
		case 2:
			g.opRemove([]uint16{pidA, pidB}[vrange(0, 1)])
		case 3:
			g.opSetPCR([]uint16{pidA, pidB}[vrange(0, 1)])
		case 4:
			g.opWriteTables()
		case 5:
			d, u := vMuxData([]uint16{pidA, pidB}[vrange(0, 1)], vrange(0, 1), 1, vchoose(1, 190))
			g.opWriteData(d, u)
		case 6:
			d, u := vMuxData(pidA, 3, 1, 20)
			g.opWriteData(d, u)
		case 7:
			g.opWritePacket(vchoose(184, 185))
		}
	}
	g.demuxAll()
	vreach("mux.history.end")
}

// HarnessMuxWrap: more than 16 packets on one PID and more than 32 content changes (counter / version wrap-around)
func HarnessMuxWrap() {
	g := newGMux(2)
	pid := vBits16(13)
	vassume(!isReservedPID(pid))
	g.opAdd(pid, StreamTypeAACAudio)
	g.opSetPCR(pid)
	for k := 0; k < 18; k++ {
		d, u := vMuxData(pid, 0, 1, []int{1, 200, 30}[k%3])
		g.opWriteData(d, u)
	}
	for k := 0; k < 34; k++ {
		g.opSetPCR(pid)
		g.opWriteTables()
	}
	g.demuxAll()
	vreach("mux.wrap.end")
}

// ---- one inductive step from an arbitrary pre-state ----

// vMuxState builds a Muxer with K streams whose counters, versions, dirty flags and retransmit counter are arbitrary
// values satisfying the representation invariant Inv, together with the matching ghost state:
//   Inv: every counter value is in [0,16] (16 = nothing written yet) and equals the cc of the last packet actually
//        written on that PID; versions in [0,32]; pmtUpdated <=> the stream set/PCR PID changed since the last PMT;
//        tablesRetransmitCounter in [0,period] = WriteData calls since the last emission.
func vMuxState(k, period int) *gMux {
	g := newGMux(period)
	pids := []uint16{0x100, 0x1ffe, 0x0021}
	for i := 0; i < k; i++ {
		g.opAdd(pids[i], StreamType(vnondetU8()))
	}
	if k > 0 {
		g.opSetPCR(pids[vrange(0, k-1)])
	} else if vnondetBool() {
		g.opSetPCR(0x100)
	}
	m := g.m
	// counters
	setCC := func(c *wrappingCounter, e *gES) {
		v := vnondetU8()
		vassume(v <= 16)
		c.value = int(v)
		e.hasCC = v <= 15
		e.lastCC = v
	}
	setCC(&m.patCC, &g.patCC)
	setCC(&m.pmtCC, &g.pmtCC)
	for i := range g.es {
		setCC(&m.esContexts[uint32(g.es[i].pid)].cc, &g.es[i])
	}
	// versions and dirty flags
	pv := vnondetU8()
	vassume(pv <= 32)
	m.pmtVersion.value = int(pv)
	g.pmtSeen, g.pmtVersion = pv <= 31, pv
	m.pmtUpdated = vnondetBool()
	g.dirty = m.pmtUpdated
	vassume(g.pmtSeen || g.dirty) // before the first emission the PMT is always dirty
	av := vnondetU8()
	vassume(av <= 32)
	m.patVersion.value = int(av)
	g.patSeen, g.patVersion = av <= 31, av
	m.pmUpdated = !g.patSeen // the program map only changes in NewMuxer
	// retransmit counter
	c := vnondetU8()
	vassume(int(c) <= period)
	m.tablesRetransmitCounter = int(c)
	g.since = int(c)
	return g
}

// checkInv: the invariant is re-established after the step (so it covers histories of any length)
func (g *gMux) checkInv() {
	m := g.m
	inv := func(id, kid string, region bool, c *wrappingCounter, e *gES) {
		if e.hasCC {
			vassertK(id, kid, region, c.value == int(e.lastCC))
		} else {
			vassertK(id, kid, region, c.value == 16)
		}
	}
	inv("C05.inv.patcc", "F5", g.tablesFailed, &m.patCC, &g.patCC)
	inv("C05.inv.pmtcc", "F13", g.tablesFailed, &m.pmtCC, &g.pmtCC)
	for i := range g.es {
		ctx, ok := m.esContexts[uint32(g.es[i].pid)]
		vassert("C05.inv.ctx", ok)
		inv("C05.inv.escc", "F4", g.afOverflow, &ctx.cc, &g.es[i])
	}
	vassert("C17.inv.streams", len(m.pmt.ElementaryStreams) == len(g.es) && len(m.esContexts) == len(g.es))
	vassert("C17.inv.dirty", m.pmtUpdated == g.dirty)
	if g.pmtSeen {
		vassertK("C17.inv.pmtversion", "F13", g.tablesFailed, m.pmtVersion.value == int(g.pmtVersion))
	}
	vassert("C17.inv.since", m.tablesRetransmitCounter == g.since || (g.tablesFailed && m.tablesRetransmitCounter == g.since))
}

// HarnessMuxStep: one operation with arbitrary arguments from an arbitrary valid state with k streams
func HarnessMuxStep(op, k, period, level int) {
	g := vMuxState(k, period)
	g.pos = len(g.sink.buf)
	pids := []uint16{0x100, 0x1ffe, 0x0021, 0x0444}
	switch op {
	case 0:
		g.opAdd(pids[vrange(0, 3)], StreamType(vnondetU8()))
	case 1:
		g.opAdd(0, StreamType(vnondetU8()))
	case 2:
		g.opRemove(pids[vrange(0, 3)])
	case 3:
		g.opSetPCR(pids[vrange(0, 3)])
	case 4:
		g.opWriteTables()
	case 5:
		var d *MuxerData
		var u gUnit
		if level == 0 {
			d, u = vMuxData(pids[vrange(0, 2)], vrange(0, 1), 1, vchoose(1, 190))
		} else {
			d, u = vMuxData(pids[vrange(0, 3)], vrange(0, 2), vrange(0, 2), vchoose(1, 170, 190))
		}
		g.opWriteData(d, u)
	case 6:
		d, u := vMuxData(pids[vrange(0, 1)], 3, 1, 20)
		g.opWriteData(d, u)
	case 7:
		g.opWritePacketAF(vchoose(184, 185, 186), vrange(0, 7))
	}
	g.checkInv()
	vreach("mux.step.end")
}

// HarnessMuxScript: a fixed operation script (digits, most significant first): 0 add with automatic PID, 1 add A, 2 add B, 3 remove A,
// 4 set PCR A, 5 set PCR to an unknown PID, 6 WriteTables, 7 WriteData A, 8 WriteData A with an adaptation field that
// leaves no room for the PES header, 9 WriteData B
func HarnessMuxScript(script, period int) {
	g := newGMux(period)
	var ops []int
	for x := script; x > 0; x /= 10 {
		ops = append([]int{x % 10}, ops...)
	}
	pidA, pidB := uint16(0x100), uint16(0x1ffe)
	for _, op := range ops {
		switch op {
		case 0:
			g.opAdd(0, StreamTypeAACAudio) // automatic PID
		case 1:
			g.opAdd(pidA, StreamType(vnondetU8()))
		case 2:
			g.opAdd(pidB, StreamType(vnondetU8()))
		case 3:
			g.opRemove(pidA)
		case 4:
			g.opSetPCR(pidA)
		case 5:
			g.opSetPCR(0x0333)
		case 6:
			g.opWriteTables()
		case 7:
			d, u := vMuxData(pidA, 1, 1, 190)
			g.opWriteData(d, u)
		case 8:
			d, u := vMuxData(pidA, 3, 1, 20)
			g.opWriteData(d, u)
		case 9:
			d, u := vMuxData(pidB, 0, 2, 1)
			g.opWriteData(d, u)
		}
	}
	g.demuxAll()
	vreach("mux.script.end")
}

// HarnessMuxPeriod: configured retransmit period p (including values around and above the default of 40): tables
// precede the first unit and come again exactly with the call that makes p calls since the last emission
func HarnessMuxPeriod(p int) {
	g := newGMux(p)
	g.opAdd(0x100, StreamTypeAACAudio)
	g.opSetPCR(0x100)
	for k := 0; k < p+2; k++ {
		d, u := vMuxData(0x100, 0, 1, 3)
		g.opWriteData(d, u)
	}
	vreach("mux.period.end")
}

// HarnessMuxBig: payloads around the 65535-byte PES_packet_length limit (concrete pattern payload, symbolic PTS),
// muxed and demuxed again
func HarnessMuxBig(plen, audio int) {
	g := newGMux(5)
	typ := StreamTypeH264Video
	if audio == 1 {
		typ = StreamTypeAACAudio
	}
	g.opAdd(0x100, typ)
	g.opSetPCR(0x100)
	for k := 0; k < 2; k++ {
		d, u := vMuxData(0x100, 0, 1, 0)
		u.payload = make([]byte, plen)
		for i := range u.payload {
			u.payload[i] = 0x80 | byte(i%32) | byte(k)<<6&0x40
		}
		d.PES.Data = u.payload
		g.opWriteData(d, u)
	}
	g.demuxAll()
	vreach("mux.big.end")
}

// muxPairLens: payload lengths (PTS-only header of 14 bytes) whose last packet needs exactly 1 / 2 / 0 / many / 1 (second
// packet) stuffing bytes
var muxPairLens = []int{169, 168, 170, 10, 353}

// HarnessMuxPair: two (three with `third`) consecutive WriteData calls on one PID whose last packets need different
// amounts of stuffing - in particular the one-byte adaptation field followed by a longer one and vice versa: state kept
// by the muxer between calls must not leak from one packet into the next
func HarnessMuxPair(i1, i2, third int) {
	g := newGMux(50)
	pid := uint16(0x100)
	g.opAdd(pid, StreamTypeH264Video)
	g.opSetPCR(pid)
	d1, u1 := vMuxData(pid, 0, 1, muxPairLens[i1])
	g.opWriteData(d1, u1)
	d2, u2 := vMuxData(pid, 0, 1, muxPairLens[i2])
	g.opWriteData(d2, u2)
	if third == 1 {
		d3, u3 := vMuxData(pid, 1, 1, 100)
		g.opWriteData(d3, u3)
	}
	g.demuxAll()
	vreach("mux.pair.end")
}

// HarnessMuxPCRMove: the PCR PID is moved between two configured streams (no stream added or removed) between table
// emissions, twice: every PMT on the wire names the PCR PID configured when it was emitted, with a bumped version
func HarnessMuxPCRMove(period int) {
	g := newGMux(period)
	pidA, pidB := uint16(0x100), uint16(0x101)
	g.opAdd(pidA, StreamTypeH264Video)
	g.opAdd(pidB, StreamTypeAACAudio)
	g.opSetPCR(pidA)
	d, u := vMuxData(pidA, 1, 1, 20)
	g.opWriteData(d, u)
	g.opSetPCR(pidB)
	g.opWriteTables()
	d, u = vMuxData(pidB, 0, 1, 5)
	g.opWriteData(d, u)
	g.opSetPCR(pidA)
	d, u = vMuxData(pidA, 0, 1, 190)
	g.opWriteData(d, u)
	g.opWriteTables()
	g.demuxAll()
	vreach("mux.pcrmove.end")
}
