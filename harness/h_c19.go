package astits

// C19: a PacketSkipper equals deleting packets; a PacketsParser sees each unit exactly once.

// HarnessC19Skip: skipper decisions are arbitrary per packet: NextPacket/NextData return what the stream without
// the skipped packets returns; the skipper is consulted once per packet, in order, with header and AF parsed
func HarnessC19Skip(api int) {
	s := c08Stream()
	// two adaptation-field-only packets (PCR only, no payload): one on the ES PID, one on a foreign PID
	for k, pid := range []uint16{0x100, 0x1ff0} {
		m := &mPacket{pid: pid, hasAF: true, cc: uint8(5 + k)}
		m.af = mAF{hasPCR: true, pcrBase: vTS33(), pcrExt: vBits16(9), stuffing: 183 - 7}
		pos := 3 + 2*k
		s.pkts = append(append(append([][]byte{}, s.pkts[:pos]...), refEncodePacket(m)), s.pkts[pos:]...)
	}
	// two byte-identical null packets in a row (padding of a constant-bitrate stream): each one is offered to the skipper
	null := &mPacket{pid: 0x1fff, hasPayload: true, cc: 0}
	null.payload = make([]byte, 184)
	for i := range null.payload {
		null.payload[i] = 0xff
	}
	nb := refEncodePacket(null)
	s.pkts = append(append(append([][]byte{}, s.pkts[:2]...), nb, nb), s.pkts[2:]...)
	// a packet without adaptation field right behind packets that carry one (a full-payload PES packet on another PID)
	full := mkPESPattern(0x101, 170, true, 6)
	s.add(full, packetize(full, 9, 184, false))
	var keep []byte
	var decisions []bool
	for _, p := range s.pkts {
		skip := vnondetBool()
		decisions = append(decisions, skip)
		if !skip {
			keep = append(keep, p...)
		}
	}
	calls := 0
	skipper := func(p *Packet) bool {
		// consulted in stream order with header / adaptation field parsed and before the payload is extracted
		exp, _ := parsePacket(astikitIter(s.pkts[calls]), nil)
		vassert("C19.skip.header", p.Header == exp.Header)
		vassert("C19.skip.af", (p.AdaptationField == nil) == (exp.AdaptationField == nil))
		vassert("C19.skip.nopayload", p.Payload == nil)
		d := decisions[calls]
		calls++
		return d
	}
	dmx := NewDemuxer(vCtx{}, newVReader(s.bytes()), DemuxerOptPacketSize(188), DemuxerOptPacketSkipper(skipper))
	ref := NewDemuxer(vCtx{}, newVReader(keep), DemuxerOptPacketSize(188))
	for k := 0; k < 20; k++ {
		if api == 0 {
			p, err := dmx.NextPacket()
			q, err2 := ref.NextPacket()
			vassert("C19.skip.packet.err", (err == nil) == (err2 == nil) && (err != ErrNoMorePackets) == (err2 != ErrNoMorePackets))
			if err != nil {
				break
			}
			vassert("C19.skip.packet.same", p.Header == q.Header && vBytesEq(p.Payload, q.Payload) && (p.AdaptationField == nil) == (q.AdaptationField == nil))
		} else {
			d, err := dmx.NextData()
			e, err2 := ref.NextData()
			vassert("C19.skip.data.err", (err == nil) == (err2 == nil) && (err != ErrNoMorePackets) == (err2 != ErrNoMorePackets))
			if err != nil {
				break
			}
			vassert("C19.skip.data.same", sameData(d, e))
		}
	}
	vassert("C19.skip.once", calls == len(s.pkts))
	vreach("C19.skip.end")
}

// HarnessC19Parser: the custom parser is handed each flushed group exactly once (non-empty, single PID, arrival
// order); skip=false leaves the default output unchanged, skip=true substitutes what it returns, an error surfaces
// xpid > 0: the stream additionally carries a two-packet unit on that PID (null PID 0x1fff, CAT PID 1, an unlisted PID)
func HarnessC19Parser(mode, xpid int) {
	s := c08Stream()
	if xpid > 0 {
		u := mkPESPattern(uint16(xpid), 200, true, 5)
		s.add(u, packetize(u, 3, 184, false))
	}
	order, _ := s.expectedOrder()
	seen := 0
	marker := &DemuxerData{PID: 0x1abc}
	var failure = errVInjected
	parser := func(ps []*Packet) ([]*DemuxerData, bool, error) {
		vassert("C19.parser.nonempty", len(ps) > 0)
		u := s.units[order[seen]]
		if mode == 1 {
			// nothing is delivered by default here, so the PAT is never learned and the PMT unit is flushed at the
			// end of the stream instead of early: match the group by its PID
			for _, x := range s.units {
				if x.pid == ps[0].Header.PID && x.cc0&0xf == ps[0].Header.ContinuityCounter {
					u = x
				}
			}
		}
		vassert("C19.parser.unit", len(ps) == u.npkts)
		for i, p := range ps {
			vassert("C19.parser.pid", p.Header.PID == u.pid)
			vassert("C19.parser.order", p.Header.ContinuityCounter == (u.cc0+uint8(i))&0xf)
		}
		seen++
		switch mode {
		case 1:
			return []*DemuxerData{marker}, true, nil
		case 2:
			if seen == 2 {
				return nil, false, failure
			}
		}
		return nil, false, nil
	}
	dmx := NewDemuxer(vCtx{}, newVReader(s.bytes()), DemuxerOptPacketSize(188), DemuxerOptPacketsParser(parser))
	ref := drainAll(s.bytes())
	var got []*DemuxerData
	sawErr := false
	for k := 0; k < 12; k++ {
		d, err := dmx.NextData()
		if err == ErrNoMorePackets {
			break
		}
		if err != nil {
			sawErr = true
			vassert("C19.parser.error.wraps", errorsIs(err, failure))
			continue
		}
		got = append(got, d)
	}
	vassert("C19.parser.once", seen == len(order))
	switch mode {
	case 0:
		vassert("C19.parser.observer", sameSeq(ref, got))
	case 1:
		vassert("C19.parser.replacer.count", len(got) == len(order))
		for _, d := range got {
			vassert("C19.parser.replacer", d == marker)
		}
	case 2:
		vassert("C19.parser.error.seen", sawErr)
	}
	vreach("C19.parser.end")
}

// HarnessC19SkipRewind: the skipper stays in force after Rewind
func HarnessC19SkipRewind(auto int) {
	s := c08Stream()
	skipPID := []uint16{0, 0x1000, 0x100}[vrange(0, 2)]
	var keep []byte
	for k, p := range s.pkts {
		if s.units[s.pktUnit[k]].pid != skipPID {
			keep = append(keep, p...)
		}
	}
	skipper := func(p *Packet) bool { return p.Header.PID == skipPID }
	var dmx *Demuxer
	if auto == 1 {
		dmx = NewDemuxer(vCtx{}, newVSeekReader(s.bytes()), DemuxerOptPacketSkipper(skipper))
	} else {
		dmx = NewDemuxer(vCtx{}, newVSeekReader(s.bytes()), DemuxerOptPacketSize(188), DemuxerOptPacketSkipper(skipper))
	}
	for i := vrange(0, 3); i > 0; i-- {
		dmx.NextPacket()
	}
	_, err := dmx.Rewind()
	vassert("C19.rewind.err", err == nil)
	ref := NewDemuxer(vCtx{}, newVReader(keep), DemuxerOptPacketSize(188))
	for k := 0; k < 8; k++ {
		p, e1 := dmx.NextPacket()
		q, e2 := ref.NextPacket()
		vassert("C19.rewind.err.same", (e1 == nil) == (e2 == nil))
		if e1 != nil || e2 != nil {
			break
		}
		vassert("C19.rewind.same", p.Header == q.Header && vBytesEq(p.Payload, q.Payload))
	}
	vreach("C19.rewind.end")
}
