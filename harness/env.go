package astits

// Environment stubs written in ordinary Go; the engine executes them symbolically like any other code.

import (
	"github.com/asticode/go-astikit"
	"errors"
	"io"
	"time"
)

// vCtx is a context that is never cancelled.
type vCtx struct{}

func (vCtx) Deadline() (time.Time, bool)       { return time.Time{}, false }
func (vCtx) Done() <-chan struct{}             { return nil }
func (vCtx) Err() error                        { return nil }
func (vCtx) Value(key interface{}) interface{} { return nil }

var errVInjected = errors.New("verif: injected I/O failure")

// vSink is an io.Writer that records what it accepts and can fail at a chosen call.
type vSink struct {
	buf     []byte
	calls   int
	failAt  int  // call index at which Write fails (-1: never)
	oneShot bool // fail only on that call
	accept  int  // bytes accepted by the failing call (<= len(p))
}

func newVSink() *vSink { return &vSink{failAt: -1} }

func (s *vSink) Write(p []byte) (int, error) {
	idx := s.calls
	s.calls++
	if s.failAt >= 0 && (idx == s.failAt || (!s.oneShot && idx > s.failAt)) {
		n := s.accept
		if n > len(p) {
			n = len(p)
		}
		if idx > s.failAt {
			n = 0
		}
		s.buf = append(s.buf, p[:n]...)
		return n, errVInjected
	}
	s.buf = append(s.buf, p...)
	return len(p), nil
}

// vReader is an io.Reader over a byte slice with a chosen fragmentation and an optional failure point.
type vReader struct {
	data   []byte
	pos    int
	chunks []int // successive maximum read sizes (0 or exhausted list: unlimited)
	ci     int
	failAt int // byte offset at which reads start failing (-1: never)
	reads  int
}

func newVReader(data []byte) *vReader { return &vReader{data: data, failAt: -1} }

func (r *vReader) Read(p []byte) (int, error) {
	r.reads++
	if len(p) == 0 {
		return 0, nil
	}
	if r.failAt >= 0 && r.pos >= r.failAt {
		return 0, errVInjected
	}
	if r.pos >= len(r.data) {
		return 0, io.EOF
	}
	n := len(r.data) - r.pos
	if n > len(p) {
		n = len(p)
	}
	if r.failAt >= 0 && r.pos+n > r.failAt {
		n = r.failAt - r.pos
	}
	if r.ci < len(r.chunks) {
		if c := r.chunks[r.ci]; c > 0 && c < n {
			n = c
		}
		r.ci++
	}
	copy(p, r.data[r.pos:r.pos+n])
	r.pos += n
	return n, nil
}

// vSeekReader adds io.Seeker.
type vSeekReader struct{ vReader }

func newVSeekReader(data []byte) *vSeekReader {
	return &vSeekReader{vReader{data: data, failAt: -1}}
}

func (r *vSeekReader) Seek(offset int64, whence int) (int64, error) {
	var abs int64
	switch whence {
	case io.SeekStart:
		abs = offset
	case io.SeekCurrent:
		abs = int64(r.pos) + offset
	case io.SeekEnd:
		abs = int64(len(r.data)) + offset
	default:
		return 0, errors.New("vSeekReader: invalid whence")
	}
	if abs < 0 {
		return 0, errors.New("vSeekReader: negative position")
	}
	r.pos = int(abs)
	return abs, nil
}

func vBytesEq(a, b []byte) bool {
	if len(a) != len(b) {
		return false
	}
	eq := true
	for i := range a {
		eq = eq && a[i] == b[i]
	}
	return eq
}

func astikitIter(b []byte) *astikit.BytesIterator { return astikit.NewBytesIterator(b) }

func errorsIs(err, target error) bool { return errors.Is(err, target) }
