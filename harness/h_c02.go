package astits

// C02: the demuxer delivers exactly the units a stream carries, whatever the packetisation.

func newDmx(data []byte) (*Demuxer, *vReader) {
	r := newVReader(data)
	return NewDemuxer(vCtx{}, r, DemuxerOptPacketSize(188)), r
}

// HarnessC02PES: two PES units on one PID (symbolic PID outside the PSI ranges); the first is split at every point
func HarnessC02PES(plen, bounded, big int) {
	pid := vBits16(13)
	vassume(pid >= 0x20 && pid != 0x1fff)
	s := &sStream{}
	cc := vBits8(4)
	u1 := mkPES(pid, plen, bounded == 1)
	L := len(u1.bytes)
	var first int
	if big == 0 {
		// every split point, including a 1-byte first chunk and a 1-byte last chunk
		hi := L
		if hi > 184 {
			hi = 184
		}
		first = vrange(1, hi)
	} else {
		first = vchoose(1, 2, 9, 183, 184)
	}
	p1 := packetize(u1, cc, first, false)
	s.add(u1, p1)
	u2 := mkPES(pid, 3, true)
	s.add(u2, packetize(u2, cc+uint8(len(p1)), 184, false))
	dmx, r := newDmx(s.bytes())
	drainAndCheck(dmx, s, r)
	vreach("C02.pes.end")
}

// HarnessC02PSI: one PSI unit of nsec sections split at every point such that every section starts in the first
// packet (ISO 13818-1 2.4.4), on the PAT PID (early delivery) or the SDT PID (delivery at next unit / end of stream)
func HarnessC02PSI(onPAT, nsec, ptr, trailing int) {
	s := &sStream{}
	var secs []*mSection
	pid, kind := uint16(0x11), 3
	if onPAT == 1 {
		pid, kind = 0, 1
	}
	for i := 0; i < nsec; i++ {
		if onPAT == 1 {
			secs = append(secs, mkPAT(0x1000+uint16(i)))
		} else {
			secs = append(secs, mkSDT(i%2+1))
		}
	}
	u := mkPSI(pid, kind, secs, ptr, trailing)
	// start offset of the last section
	lastStart := 1 + ptr
	for _, sec := range secs[:nsec-1] {
		b, _ := refEncSection(sec)
		lastStart += len(b)
	}
	hi := len(u.bytes)
	if hi > 184 {
		hi = 184
	}
	first := vrange(lastStart+1, hi)
	// a continuation packet carrying nothing but trailing 0xFF stuffing is not a layout a multiplexer produces
	vassume(first < len(u.bytes)-trailing || first == len(u.bytes))
	cc := vBits8(4)
	s.add(u, packetize(u, cc, first, trailing == 0 && vnondetBool()))
	// a second unit on the same PID triggers / follows
	u2 := mkPSI(pid, kind, secs[:1], 0, 0)
	s.add(u2, packetize(u2, cc+uint8(u.npkts), 184, true))
	dmx, r := newDmx(s.bytes())
	drainAndCheck(dmx, s, r)
	vreach("C02.psi.end")
}

// merge interleaves per-source packet lists in every order-preserving way (forked by the engine)
func mergeSources(s *sStream, units [][]*sUnit, pkts [][][][]byte) {
	// units[src][k], pkts[src][k] = packets of that unit
	type cur struct{ u, p int }
	pos := make([]cur, len(units))
	for {
		var avail []int
		for i := range units {
			if pos[i].u < len(units[i]) {
				avail = append(avail, i)
			}
		}
		if len(avail) == 0 {
			return
		}
		src := avail[vrange(0, len(avail)-1)]
		c := &pos[src]
		u := units[src][c.u]
		if c.p == 0 {
			s.units = append(s.units, u)
		}
		// unit index of u
		ui := -1
		for i, x := range s.units {
			if x == u {
				ui = i
			}
		}
		s.pkts = append(s.pkts, pkts[src][c.u][c.p])
		s.pktUnit = append(s.pktUnit, ui)
		c.p++
		if c.p == len(pkts[src][c.u]) {
			c.u++
			c.p = 0
		}
	}
}

// HarnessC02Mixed: PAT -> PMT, two PES units on an ES PID and an SDT unit, in every order-preserving interleaving
func HarnessC02Mixed(variant int) {
	s := &sStream{}
	pat := mkPSI(0, 1, []*mSection{mkPAT(0x1000)}, 0, 0)
	pmt := mkPSI(0x1000, 2, []*mSection{mkPMT(0x100)}, vchoose(0, 3), 0)
	e1 := mkPES(0x100, 190, variant == 1)
	e2 := mkPES(0x100, 5, true)
	sdt := mkPSI(0x11, 3, []*mSection{mkSDT(1), mkSDT(2)}, 0, 0)
	units := [][]*sUnit{{pat, pmt}, {e1, e2}, {sdt}}
	pe1 := packetize(e1, 7, 184, false)
	pkts := [][][][]byte{
		{packetize(pat, 3, 184, true), packetize(pmt, 15, 184, true)},
		{pe1, packetize(e2, 7+uint8(len(pe1)), 184, false)},
		{packetize(sdt, 0, 30, false)},
	}
	mergeSources(s, units, pkts)
	dmx, r := newDmx(s.bytes())
	drainAndCheck(dmx, s, r)
	vreach("C02.mixed.end")
}

// HarnessC02LatePAT: packets of the PMT PID arrive before the first PAT that announces it: once the PAT has been
// delivered, later PMT units are again returned by the call that reads their final packet
func HarnessC02LatePAT() {
	s := &sStream{}
	pmt1 := mkPSI(0x1000, 2, []*mSection{mkPMT(0x100)}, 0, 0)
	pat := mkPSI(0, 1, []*mSection{mkPAT(0x1000)}, 0, 0)
	pmt2 := mkPSI(0x1000, 2, []*mSection{mkPMT(0x100)}, 0, 0)
	e1 := mkPES(0x100, 10, true)
	pmt3 := mkPSI(0x1000, 2, []*mSection{mkPMT(0x100)}, vchoose(0, 2), 0)
	s.add(pmt1, packetize(pmt1, 0, 184, true)) // packet 0
	s.add(pat, packetize(pat, 0, 184, true))   // packet 1
	s.add(pmt2, packetize(pmt2, 1, 184, true)) // packet 2
	s.add(e1, packetize(e1, 0, 184, false))    // packet 3
	s.add(pmt3, packetize(pmt3, 2, 20, false)) // packets 4, 5
	dmx, r := newDmx(s.bytes())
	type rec struct {
		d   *DemuxerData
		pos int
	}
	var got []rec
	for k := 0; k < 10; k++ {
		d, err := dmx.NextData()
		if err == ErrNoMorePackets {
			break
		}
		vassert("C02.latepat.err", err == nil)
		got = append(got, rec{d, r.pos})
	}
	// PAT: early, after packet 1
	vassert("C02.latepat.pat", len(got) >= 1 && got[0].d.PAT != nil && got[0].pos == 2*188)
	// the PMT unit that was pending when its PID became known must not be lost: it is flushed by the next unit start
	pmts := 0
	for _, g := range got {
		if g.d.PMT != nil {
			pmts++
		}
	}
	// the PMT units after the PAT are returned by the call that reads their final packet (packets 2 and 5)
	early2, early3 := false, false
	for _, g := range got {
		if g.d.PMT != nil && g.pos == 3*188 {
			early2 = true
		}
		if g.d.PMT != nil && g.pos == 6*188 {
			early3 = true
		}
	}
	vassert("C02.latepat.pmt2.early", early2)
	vassert("C02.latepat.pmt3.early", early3)
	// the PES unit comes out at end of stream
	vassert("C02.latepat.pes", len(got) >= 1 && got[len(got)-1].d.PES != nil && vBytesEq(got[len(got)-1].d.PES.Data, e1.pes.payload))
	vreach("C02.latepat.end")
	vassertK("C02.latepat.firstpmt", "F15", true, pmts == 3)
}
