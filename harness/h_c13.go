package astits

import (
	"time"

	"github.com/asticode/go-astikit"
)

// C13: PSI/SI tables are decoded field for field; PAT and PMT are encoded exactly.

func c13CheckHeader(ps *PSISection, s *mSection, secLen int) {
	h := ps.Header
	vassert("C13.hdr.tableid", uint8(h.TableID) == s.tableID)
	vassert("C13.hdr.flags", h.SectionSyntaxIndicator == s.ssi && h.PrivateBit == s.private)
	vassert("C13.hdr.length", int(h.SectionLength) == secLen)
	if refHasSyntaxHeader(s.tableID) {
		sh := ps.Syntax.Header
		vassert("C13.syntax.present", sh != nil)
		vassert("C13.syntax.ext", sh.TableIDExtension == s.ext)
		vassert("C13.syntax.version", sh.VersionNumber == s.version && sh.CurrentNextIndicator == s.cni)
		vassert("C13.syntax.numbers", sh.SectionNumber == s.secNum && sh.LastSectionNumber == s.lastSecNum)
	}
}

func timeEq(a, b time.Time) bool {
	return a.Year() == b.Year() && a.Month() == b.Month() && a.Day() == b.Day() &&
		a.Sub(a.Truncate(24*time.Hour)) == b.Sub(b.Truncate(24*time.Hour))
}

func c13CheckData(d *PSISectionSyntaxData, s *mSection) {
	switch {
	case s.pat != nil:
		p := d.PAT
		vassert("C13.pat.present", p != nil && p.TransportStreamID == s.ext)
		vassert("C13.pat.count", len(p.Programs) == len(s.pat.Programs))
		for i, w := range s.pat.Programs {
			vassert("C13.pat.program", p.Programs[i].ProgramNumber == w.ProgramNumber && p.Programs[i].ProgramMapID == w.ProgramMapID)
		}
	case s.pmt != nil:
		p := d.PMT
		vassert("C13.pmt.present", p != nil && p.ProgramNumber == s.ext && p.PCRPID == s.pmt.PCRPID)
		vassert("C13.pmt.progdesc", descLoopsEqual(p.ProgramDescriptors, s.pmt.ProgramDescriptors))
		vassert("C13.pmt.count", len(p.ElementaryStreams) == len(s.pmt.ElementaryStreams))
		for i, w := range s.pmt.ElementaryStreams {
			g := p.ElementaryStreams[i]
			vassert("C13.pmt.stream", g.StreamType == w.StreamType && g.ElementaryPID == w.ElementaryPID)
			vassert("C13.pmt.streamdesc", descLoopsEqual(g.ElementaryStreamDescriptors, w.ElementaryStreamDescriptors))
		}
	case s.sdt != nil:
		p := d.SDT
		vassert("C13.sdt.present", p != nil && p.TransportStreamID == s.ext && p.OriginalNetworkID == s.sdt.OriginalNetworkID)
		vassert("C13.sdt.count", len(p.Services) == len(s.sdt.Services))
		for i, w := range s.sdt.Services {
			g := p.Services[i]
			vassert("C13.sdt.service", g.ServiceID == w.ServiceID && g.HasEITSchedule == w.HasEITSchedule && g.HasEITPresentFollowing == w.HasEITPresentFollowing &&
				g.RunningStatus == w.RunningStatus && g.HasFreeCSAMode == w.HasFreeCSAMode)
			vassert("C13.sdt.desc", descLoopsEqual(g.Descriptors, w.Descriptors))
		}
	case s.nit != nil:
		p := d.NIT
		vassert("C13.nit.present", p != nil && p.NetworkID == s.ext)
		vassert("C13.nit.netdesc", descLoopsEqual(p.NetworkDescriptors, s.nit.NetworkDescriptors))
		vassert("C13.nit.count", len(p.TransportStreams) == len(s.nit.TransportStreams))
		for i, w := range s.nit.TransportStreams {
			g := p.TransportStreams[i]
			vassert("C13.nit.ts", g.TransportStreamID == w.TransportStreamID && g.OriginalNetworkID == w.OriginalNetworkID)
			vassert("C13.nit.tsdesc", descLoopsEqual(g.TransportDescriptors, w.TransportDescriptors))
		}
	case s.eit != nil:
		p := d.EIT
		vassert("C13.eit.present", p != nil && p.ServiceID == s.ext && p.TransportStreamID == s.eit.TransportStreamID && p.OriginalNetworkID == s.eit.OriginalNetworkID &&
			p.SegmentLastSectionNumber == s.eit.SegmentLastSectionNumber && p.LastTableID == s.eit.LastTableID)
		vassert("C13.eit.count", len(p.Events) == len(s.eit.Events))
		for i, w := range s.eit.Events {
			g := p.Events[i]
			vassert("C13.eit.event", g.EventID == w.EventID && g.RunningStatus == w.RunningStatus && g.HasFreeCSAMode == w.HasFreeCSAMode)
			vassert("C13.eit.time", timeEq(g.StartTime, w.StartTime) && g.Duration == w.Duration)
			vassert("C13.eit.desc", descLoopsEqual(g.Descriptors, w.Descriptors))
		}
	case s.tot != nil:
		p := d.TOT
		vassert("C13.tot.present", p != nil && timeEq(p.UTCTime, s.tot.UTCTime))
		vassert("C13.tot.desc", descLoopsEqual(p.Descriptors, s.tot.Descriptors))
	}
}

// HarnessC13Decode: a unit of 1..2 sections behind a pointer field (filler bytes), optional 0xFF stuffing after
func HarnessC13Decode(kind, n, kind2, level int) {
	s1 := vModelSection(kind, n, level)
	secs := []*mSection{s1}
	if kind2 >= 0 {
		secs = append(secs, vModelSection(kind2, 1, -1))
	}
	ptr := vchoose(0, 1, 5)
	buf := []byte{byte(ptr)}
	buf = append(buf, vnondetBytes(ptr)...)
	var lens []int
	for _, s := range secs {
		b, _ := refEncSection(s)
		lens = append(lens, len(b)-3)
		buf = append(buf, b...)
	}
	for k := vchoose(0, 3); k > 0; k-- {
		buf = append(buf, 0xff)
	}
	d, err := parsePSIData(astikit.NewBytesIterator(buf))
	vassert("C13.decode.err", err == nil)
	vassert("C13.decode.pointer", d.PointerField == ptr)
	// a stuffing byte ends the unit; the library reports it as one more (empty) section entry
	vassert("C13.decode.count", len(d.Sections) >= len(secs))
	for i, s := range secs {
		ps := d.Sections[i]
		c13CheckHeader(ps, s, lens[i])
		vassert("C13.decode.syntax", ps.Syntax != nil && ps.Syntax.Data != nil)
		c13CheckData(ps.Syntax.Data, s)
		if refHasCRC(s.tableID) {
			b, _ := refEncSection(s)
			l := len(b)
			vassert("C13.decode.crc", ps.CRC32 == uint32(b[l-4])<<24|uint32(b[l-3])<<16|uint32(b[l-2])<<8|uint32(b[l-1]))
		}
	}
	for i := len(secs); i < len(d.Sections); i++ {
		vassert("C13.decode.trailer", d.Sections[i].Syntax == nil)
	}
	// section -> DemuxerData mapping
	ds := d.toData(&Packet{}, 0x20)
	vassert("C13.todata.count", len(ds) == len(secs))
	for i, s := range secs {
		x := ds[i]
		vassert("C13.todata.kind", (x.PAT != nil) == (s.pat != nil) && (x.PMT != nil) == (s.pmt != nil) && (x.SDT != nil) == (s.sdt != nil) &&
			(x.NIT != nil) == (s.nit != nil) && (x.EIT != nil) == (s.eit != nil) && (x.TOT != nil) == (s.tot != nil) && x.PES == nil && x.PID == 0x20)
		vassert("C13.todata.same", x.PAT == d.Sections[i].Syntax.Data.PAT && x.PMT == d.Sections[i].Syntax.Data.PMT && x.SDT == d.Sections[i].Syntax.Data.SDT &&
			x.NIT == d.Sections[i].Syntax.Data.NIT && x.EIT == d.Sections[i].Syntax.Data.EIT && x.TOT == d.Sections[i].Syntax.Data.TOT)
	}
	vreach("C13.decode.end")
}

func c13ToPSISection(s *mSection) *PSISection {
	sec := &PSISection{
		Header: &PSISectionHeader{TableID: PSITableID(s.tableID), SectionSyntaxIndicator: s.ssi, PrivateBit: s.private},
		Syntax: &PSISectionSyntax{
			Header: &PSISectionSyntaxHeader{TableIDExtension: s.ext, VersionNumber: s.version, CurrentNextIndicator: s.cni, SectionNumber: s.secNum, LastSectionNumber: s.lastSecNum},
			Data:   &PSISectionSyntaxData{PAT: s.pat, PMT: s.pmt},
		},
	}
	sec.Header.SectionLength = calcPSISectionLength(sec)
	return sec
}

// HarnessC13Encode: the PAT/PMT sections the library writes are the reference encoding, byte for byte
func HarnessC13Encode(kind, n, level int) {
	s := vModelSection(kind, n, level)
	// current_next_indicator is the last bit of its byte: the writer flushes (and feeds the CRC) inside the branch on
	// it, so it is case-split rather than merged (a merged CRC state is semantically equal but no longer syntactically)
	s.cni = vrange(0, 1) == 1
	want, mask := refEncSection(s)
	ptr := vchoose(0, 2)
	sink := newVSink()
	w := astikit.NewBitsWriter(astikit.BitsWriterOptions{Writer: sink})
	nw, err := writePSIData(w, &PSIData{PointerField: ptr, Sections: []*PSISection{c13ToPSISection(s)}})
	vassert("C13.encode.err", err == nil)
	vassert("C13.encode.n", nw == len(sink.buf))
	vassert("C13.encode.len", len(sink.buf) == 1+ptr+len(want))
	vassert("C13.encode.pointer", int(sink.buf[0]) == ptr)
	got := sink.buf[1+ptr:]
	// the CRC field itself is compared exactly below; reserved bits inside descriptor loops are don't-care
	vassert("C13.encode.bytes", vBytesEqMasked(got[:len(got)-4], want[:len(want)-4], mask[:len(mask)-4]))
	// C09: section_length == bytes after it; CRC_32 covers everything before it
	secLen := int(uint16(got[1]&0xf)<<8 | uint16(got[2]))
	vassert("C09.out.length", secLen == len(got)-3)
	crc := uint32(got[len(got)-4])<<24 | uint32(got[len(got)-3])<<16 | uint32(got[len(got)-2])<<8 | uint32(got[len(got)-1])
	vassert("C09.out.crc", crc == computeCRC32(got[:len(got)-4]))
	vreach("C13.encode.end")
}

// HarnessC13DecodeBig: descriptor loops of 1024 bytes and more (all 12 bits of the loop length are used) in the SI
// tables whose sections may be up to 4093 bytes long
func HarnessC13DecodeBig(kind int) {
	s := vModelSection(kind, 1, -1)
	var big []*Descriptor
	for k := 0; k < 5; k++ {
		// concrete recognisable contents: a mis-parsed loop must not turn into 1250 symbolic bytes
		d := &Descriptor{Tag: 0x90 + uint8(k), Length: 250, UserDefined: make([]byte, 250)}
		for i := range d.UserDefined {
			d.UserDefined[i] = 0x80 | byte(k)<<4 | byte(i%16)
		}
		big = append(big, d)
	}
	switch kind {
	case 2:
		s.sdt.Services[0].Descriptors = big
		s.sdt.Services = append(s.sdt.Services, &SDTDataService{ServiceID: vnondetU16(), RunningStatus: vBits8(3)})
	case 3:
		s.nit.NetworkDescriptors = big
	case 4:
		s.eit.Events[0].Descriptors = big
		s.eit.Events = append(s.eit.Events, &EITDataEvent{EventID: vnondetU16(), StartTime: vTimes[0], Duration: vOffsets[1], RunningStatus: vBits8(3)})
	}
	b, _ := refEncSection(s)
	buf := append([]byte{0}, b...)
	d, err := parsePSIData(astikit.NewBytesIterator(buf))
	vassert("C13.big.err", err == nil && len(d.Sections) == 1)
	if err != nil || len(d.Sections) != 1 || d.Sections[0].Syntax == nil || d.Sections[0].Syntax.Data == nil {
		return
	}
	c13CheckHeader(d.Sections[0], s, len(b)-3)
	c13CheckData(d.Sections[0].Syntax.Data, s)
	vreach("C13.big.end")
}

// HarnessC13Multi: a PAT unit of two sections of n programs each, long enough to span 3-4 TS packets with the second
// section starting in the middle of a continuation packet (the layout a multiplexer produces when it packs large
// tables back to back): both tables are delivered through the Demuxer, field for field
func HarnessC13Multi(n, first int) {
	var secs []*mSection
	for k := 0; k < 2; k++ {
		ps := &mSection{tableID: 0, ssi: true, ext: vnondetU16(), version: vBits8(5), cni: true, secNum: uint8(k), lastSecNum: 1}
		ps.pat = &PATData{TransportStreamID: ps.ext}
		for i := 0; i < n; i++ {
			ps.pat.Programs = append(ps.pat.Programs, &PATProgram{ProgramNumber: uint16(1 + k*n + i), ProgramMapID: uint16(0x1000 + k*n + i)})
		}
		secs = append(secs, ps)
	}
	s := &sStream{}
	u := mkPSI(0, 1, secs, 0, 0)
	s.add(u, packetize(u, 3, first, true))
	vassert("C13.multi.layout", u.npkts >= 3)
	dmx, _ := newDmx(s.bytes())
	for k := 0; k < 2; k++ {
		d, err := dmx.NextData()
		vassert("C13.multi.err", err == nil && d != nil && d.PAT != nil)
		if err != nil || d == nil || d.PAT == nil {
			return
		}
		c13CheckData(&PSISectionSyntaxData{PAT: d.PAT}, secs[k])
	}
	_, err := dmx.NextData()
	vassert("C13.multi.end", err == ErrNoMorePackets)
	vreach("C13.multi.end")
}
