package astits

func HarnessSmokeMux() {
	sink := newVSink()
	m := NewMuxer(vCtx{}, sink)
	err := m.AddElementaryStream(PMTElementaryStream{ElementaryPID: 0x100, StreamType: StreamTypeH264Video})
	vassert("smoke.add", err == nil)
	m.SetPCRPID(0x100)
	payload := vnondetBytes(200)
	pts := vnondetU64()
	vassume(pts < 1<<33)
	n, err := m.WriteData(&MuxerData{PID: 0x100, PES: &PESData{
		Header: &PESHeader{OptionalHeader: &PESOptionalHeader{PTSDTSIndicator: PTSDTSIndicatorOnlyPTS, PTS: &ClockReference{Base: int64(pts)}}},
		Data:   payload,
	}})
	vassert("smoke.write", err == nil)
	vassert("smoke.n", n == len(sink.buf))
	vassert("smoke.len", len(sink.buf) == 4*188)
	dmx := NewDemuxer(vCtx{}, newVReader(sink.buf), DemuxerOptPacketSize(188))
	cnt := 0
	for {
		d, err := dmx.NextData()
		if err == ErrNoMorePackets {
			break
		}
		vassert("smoke.dmxerr", err == nil)
		if d.PES != nil {
			vassert("smoke.pes.len", len(d.PES.Data) == 200)
			vassert("smoke.pes.data", vBytesEq(d.PES.Data, payload))
			vassert("smoke.pes.pts", d.PES.Header.OptionalHeader.PTS.Base == int64(pts))
		}
		cnt++
	}
	vassert("smoke.cnt", cnt == 3)
	vreach("smoke.end")
}
