package astits

import "time"

// Reference encoders of descriptor bodies, written from EN 300 468 (clauses 6.2.x, Annex D) and
// ISO/IEC 13818-1 2.6. The library's value structs are used as the model; nothing of its
// parser/writer code is used. Reserved bits are marked "don't care".

var descTags = []uint8{
	DescriptorTagAC3, DescriptorTagAVCVideo, DescriptorTagComponent, DescriptorTagContent,
	DescriptorTagDataStreamAlignment, DescriptorTagEnhancedAC3, DescriptorTagExtendedEvent, DescriptorTagExtension,
	DescriptorTagISO639LanguageAndAudioType, DescriptorTagLocalTimeOffset, DescriptorTagMaximumBitrate,
	DescriptorTagNetworkName, DescriptorTagParentalRating, DescriptorTagPrivateDataIndicator,
	DescriptorTagPrivateDataSpecifier, DescriptorTagRegistration, DescriptorTagService, DescriptorTagShortEvent,
	DescriptorTagStreamIdentifier, DescriptorTagSubtitling, DescriptorTagTeletext, DescriptorTagVBIData,
	DescriptorTagVBITeletext,
	0x01, // 23: unknown tag
	0x90, // 24: user defined tag
}

func refIsVBIKnownService(id uint8) bool {
	return id == 1 || id == 2 || id == 4 || id == 5 || id == 6 || id == 7
}

func refPutDVBMinutes(w *refW, d time.Duration) {
	mins := int64(d / time.Minute)
	h, m := uint8(mins/60), uint8(mins%60)
	w.put(8, uint64(refBCD(h)))
	w.put(8, uint64(refBCD(m)))
}

func refTeletextItems(w *refW, items []*DescriptorTeletextItem) {
	for _, it := range items {
		w.bytes(it.Language)
		w.put(5, uint64(it.Type))
		w.put(3, uint64(it.Magazine))
		w.put(4, uint64(it.Page/10))
		w.put(4, uint64(it.Page%10))
	}
}

// refEncDescBody writes the body (what follows descriptor_length)
func refEncDescBody(w *refW, d *Descriptor) {
	if d.Tag >= 0x80 && d.Tag <= 0xfe {
		w.bytes(d.UserDefined)
		return
	}
	switch d.Tag {
	case DescriptorTagAC3:
		x := d.AC3
		w.flag(x.HasComponentType)
		w.flag(x.HasBSID)
		w.flag(x.HasMainID)
		w.flag(x.HasASVC)
		w.reserved(4)
		if x.HasComponentType {
			w.put(8, uint64(x.ComponentType))
		}
		if x.HasBSID {
			w.put(8, uint64(x.BSID))
		}
		if x.HasMainID {
			w.put(8, uint64(x.MainID))
		}
		if x.HasASVC {
			w.put(8, uint64(x.ASVC))
		}
		w.bytes(x.AdditionalInfo)
	case DescriptorTagAVCVideo:
		x := d.AVCVideo
		w.put(8, uint64(x.ProfileIDC))
		w.flag(x.ConstraintSet0Flag)
		w.flag(x.ConstraintSet1Flag)
		w.flag(x.ConstraintSet2Flag)
		w.put(5, uint64(x.CompatibleFlags))
		w.put(8, uint64(x.LevelIDC))
		w.flag(x.AVCStillPresent)
		w.flag(x.AVC24HourPictureFlag)
		w.reserved(6)
	case DescriptorTagComponent:
		x := d.Component
		w.put(4, uint64(x.StreamContentExt))
		w.put(4, uint64(x.StreamContent))
		w.put(8, uint64(x.ComponentType))
		w.put(8, uint64(x.ComponentTag))
		w.bytes(x.ISO639LanguageCode)
		w.bytes(x.Text)
	case DescriptorTagContent:
		for _, it := range d.Content.Items {
			w.put(4, uint64(it.ContentNibbleLevel1))
			w.put(4, uint64(it.ContentNibbleLevel2))
			w.put(8, uint64(it.UserByte))
		}
	case DescriptorTagDataStreamAlignment:
		w.put(8, uint64(d.DataStreamAlignment.Type))
	case DescriptorTagEnhancedAC3:
		x := d.EnhancedAC3
		w.flag(x.HasComponentType)
		w.flag(x.HasBSID)
		w.flag(x.HasMainID)
		w.flag(x.HasASVC)
		w.flag(x.MixInfoExists)
		w.flag(x.HasSubStream1)
		w.flag(x.HasSubStream2)
		w.flag(x.HasSubStream3)
		if x.HasComponentType {
			w.put(8, uint64(x.ComponentType))
		}
		if x.HasBSID {
			w.put(8, uint64(x.BSID))
		}
		if x.HasMainID {
			w.put(8, uint64(x.MainID))
		}
		if x.HasASVC {
			w.put(8, uint64(x.ASVC))
		}
		if x.HasSubStream1 {
			w.put(8, uint64(x.SubStream1))
		}
		if x.HasSubStream2 {
			w.put(8, uint64(x.SubStream2))
		}
		if x.HasSubStream3 {
			w.put(8, uint64(x.SubStream3))
		}
		w.bytes(x.AdditionalInfo)
	case DescriptorTagExtendedEvent:
		x := d.ExtendedEvent
		w.put(4, uint64(x.Number))
		w.put(4, uint64(x.LastDescriptorNumber))
		w.bytes(x.ISO639LanguageCode)
		n := 0
		for _, it := range x.Items {
			n += 2 + len(it.Description) + len(it.Content)
		}
		w.put(8, uint64(n))
		for _, it := range x.Items {
			w.put(8, uint64(len(it.Description)))
			w.bytes(it.Description)
			w.put(8, uint64(len(it.Content)))
			w.bytes(it.Content)
		}
		w.put(8, uint64(len(x.Text)))
		w.bytes(x.Text)
	case DescriptorTagExtension:
		x := d.Extension
		w.put(8, uint64(x.Tag))
		if x.Tag == DescriptorTagExtensionSupplementaryAudio {
			s := x.SupplementaryAudio
			w.flag(s.MixType)
			w.put(5, uint64(s.EditorialClassification))
			w.reserved(1)
			w.flag(s.HasLanguageCode)
			if s.HasLanguageCode {
				w.bytes(s.LanguageCode)
			}
			w.bytes(s.PrivateData)
		} else if x.Unknown != nil {
			w.bytes(*x.Unknown)
		}
	case DescriptorTagISO639LanguageAndAudioType:
		w.bytes(d.ISO639LanguageAndAudioType.Language)
		w.put(8, uint64(d.ISO639LanguageAndAudioType.Type))
	case DescriptorTagLocalTimeOffset:
		for _, it := range d.LocalTimeOffset.Items {
			w.bytes(it.CountryCode)
			w.put(6, uint64(it.CountryRegionID))
			w.reserved(1)
			w.flag(it.LocalTimeOffsetPolarity)
			refPutDVBMinutes(w, it.LocalTimeOffset)
			t := it.TimeOfChange
			w.put(16, uint64(refMJDFromCivil(uint16(t.Year()), uint16(t.Month()), uint16(t.Day()))))
			tod := int64(t.Sub(t.Truncate(24*time.Hour)) / time.Second)
			w.put(8, uint64(refBCD(uint8(tod/3600))))
			w.put(8, uint64(refBCD(uint8(tod/60%60))))
			w.put(8, uint64(refBCD(uint8(tod%60))))
			refPutDVBMinutes(w, it.NextTimeOffset)
		}
	case DescriptorTagMaximumBitrate:
		w.reserved(2)
		w.put(22, uint64(d.MaximumBitrate.Bitrate/50))
	case DescriptorTagNetworkName:
		w.bytes(d.NetworkName.Name)
	case DescriptorTagParentalRating:
		for _, it := range d.ParentalRating.Items {
			w.bytes(it.CountryCode)
			w.put(8, uint64(it.Rating))
		}
	case DescriptorTagPrivateDataIndicator:
		w.put(32, uint64(d.PrivateDataIndicator.Indicator))
	case DescriptorTagPrivateDataSpecifier:
		w.put(32, uint64(d.PrivateDataSpecifier.Specifier))
	case DescriptorTagRegistration:
		w.put(32, uint64(d.Registration.FormatIdentifier))
		w.bytes(d.Registration.AdditionalIdentificationInfo)
	case DescriptorTagService:
		x := d.Service
		w.put(8, uint64(x.Type))
		w.put(8, uint64(len(x.Provider)))
		w.bytes(x.Provider)
		w.put(8, uint64(len(x.Name)))
		w.bytes(x.Name)
	case DescriptorTagShortEvent:
		x := d.ShortEvent
		w.bytes(x.Language)
		w.put(8, uint64(len(x.EventName)))
		w.bytes(x.EventName)
		w.put(8, uint64(len(x.Text)))
		w.bytes(x.Text)
	case DescriptorTagStreamIdentifier:
		w.put(8, uint64(d.StreamIdentifier.ComponentTag))
	case DescriptorTagSubtitling:
		for _, it := range d.Subtitling.Items {
			w.bytes(it.Language)
			w.put(8, uint64(it.Type))
			w.put(16, uint64(it.CompositionPageID))
			w.put(16, uint64(it.AncillaryPageID))
		}
	case DescriptorTagTeletext:
		refTeletextItems(w, d.Teletext.Items)
	case DescriptorTagVBITeletext:
		refTeletextItems(w, d.VBITeletext.Items)
	case DescriptorTagVBIData:
		for _, s := range d.VBIData.Services {
			w.put(8, uint64(s.DataServiceID))
			if refIsVBIKnownService(s.DataServiceID) {
				w.put(8, uint64(len(s.Descriptors)))
				for _, x := range s.Descriptors {
					w.reserved(2)
					w.flag(x.FieldParity)
					w.put(5, uint64(x.LineOffset))
				}
			} else {
				// reserved bytes: the count is free; the library emits one
				w.put(8, 1)
				w.reserved(8)
			}
		}
	default:
		if d.Unknown != nil {
			w.bytes(d.Unknown.Content)
		}
	}
}

// refEncDescriptor: tag, length, body
func refEncDescriptor(w *refW, d *Descriptor) {
	body := &refW{}
	refEncDescBody(body, d)
	w.put(8, uint64(d.Tag))
	w.put(8, uint64(len(body.b)))
	w.b = append(w.b, body.b...)
	w.m = append(w.m, body.m...)
	w.n += 8 * len(body.b)
}

func refDescBodyLen(d *Descriptor) int {
	body := &refW{}
	refEncDescBody(body, d)
	return len(body.b)
}

// refEncDescriptorLoop: 4 reserved bits, 12-bit length, descriptors
func refEncDescriptorLoop(w *refW, ds []*Descriptor) {
	inner := &refW{}
	for _, d := range ds {
		refEncDescriptor(inner, d)
	}
	w.reserved(4)
	w.put(12, uint64(len(inner.b)))
	w.b = append(w.b, inner.b...)
	w.m = append(w.m, inner.m...)
	w.n += 8 * len(inner.b)
}

// ---- symbolic values ----

func vLen(level int) int {
	if level < 0 {
		return vchoose(0, 2)
	}
	if level == 0 {
		return vchoose(0, 1, 3)
	}
	return vchoose(0, 1, 2, 3, 8)
}

func vCount(level int) int {
	if level == 0 {
		return vrange(0, 2)
	}
	return vrange(0, 4)
}

func vPage() uint8 {
	p := vnondetU8()
	vassume(p < 100)
	return p
}

var vTimes = []time.Time{
	time.Date(2020, 2, 29, 23, 59, 59, 0, time.UTC),
	time.Date(1999, 12, 31, 0, 0, 0, 0, time.UTC),
}
var vOffsets = []time.Duration{0, 90 * time.Minute, 12 * time.Hour}

// vModelDescriptor draws a descriptor value of the idx-th kind (see descTags)
func vModelDescriptor(idx, level int) *Descriptor {
	d := &Descriptor{Tag: descTags[idx]}
	switch idx {
	case 0:
		d.AC3 = &DescriptorAC3{HasComponentType: vnondetBool(), HasBSID: vnondetBool(), HasMainID: vnondetBool(), HasASVC: vnondetBool(),
			ComponentType: vnondetU8(), BSID: vnondetU8(), MainID: vnondetU8(), ASVC: vnondetU8(), AdditionalInfo: vnondetBytes(vLen(level))}
	case 1:
		d.AVCVideo = &DescriptorAVCVideo{ProfileIDC: vnondetU8(), ConstraintSet0Flag: vnondetBool(), ConstraintSet1Flag: vnondetBool(),
			ConstraintSet2Flag: vnondetBool(), CompatibleFlags: vBits8(5), LevelIDC: vnondetU8(), AVCStillPresent: vnondetBool(), AVC24HourPictureFlag: vnondetBool()}
	case 2:
		d.Component = &DescriptorComponent{StreamContentExt: vBits8(4), StreamContent: vBits8(4), ComponentType: vnondetU8(), ComponentTag: vnondetU8(),
			ISO639LanguageCode: vnondetBytes(3), Text: vnondetBytes(vLen(level))}
	case 3:
		d.Content = &DescriptorContent{}
		for n := vCount(level); n > 0; n-- {
			d.Content.Items = append(d.Content.Items, &DescriptorContentItem{ContentNibbleLevel1: vBits8(4), ContentNibbleLevel2: vBits8(4), UserByte: vnondetU8()})
		}
	case 4:
		d.DataStreamAlignment = &DescriptorDataStreamAlignment{Type: vnondetU8()}
	case 5:
		d.EnhancedAC3 = &DescriptorEnhancedAC3{HasComponentType: vnondetBool(), HasBSID: vnondetBool(), HasMainID: vnondetBool(), HasASVC: vnondetBool(),
			MixInfoExists: vnondetBool(), HasSubStream1: vnondetBool(), HasSubStream2: vnondetBool(), HasSubStream3: vnondetBool(),
			ComponentType: vnondetU8(), BSID: vnondetU8(), MainID: vnondetU8(), ASVC: vnondetU8(), SubStream1: vnondetU8(), SubStream2: vnondetU8(), SubStream3: vnondetU8(),
			AdditionalInfo: vnondetBytes(vLen(level))}
	case 6:
		x := &DescriptorExtendedEvent{Number: vBits8(4), LastDescriptorNumber: vBits8(4), ISO639LanguageCode: vnondetBytes(3), Text: vnondetBytes(vLen(level))}
		for n := vCount(0); n > 0; n-- {
			x.Items = append(x.Items, &DescriptorExtendedEventItem{Description: vnondetBytes(vLen(0)), Content: vnondetBytes(vLen(0))})
		}
		d.ExtendedEvent = x
	case 7:
		x := &DescriptorExtension{}
		if vnondetBool() {
			x.Tag = DescriptorTagExtensionSupplementaryAudio
			s := &DescriptorExtensionSupplementaryAudio{MixType: vnondetBool(), EditorialClassification: vBits8(5), HasLanguageCode: vnondetBool(), PrivateData: vnondetBytes(vLen(level))}
			if s.HasLanguageCode {
				s.LanguageCode = vnondetBytes(3)
			}
			x.SupplementaryAudio = s
		} else {
			x.Tag = vnondetU8()
			vassume(x.Tag != DescriptorTagExtensionSupplementaryAudio)
			u := vnondetBytes(vLen(level))
			x.Unknown = &u
		}
		d.Extension = x
	case 8:
		d.ISO639LanguageAndAudioType = &DescriptorISO639LanguageAndAudioType{Language: vnondetBytes(3), Type: vnondetU8()}
	case 9:
		x := &DescriptorLocalTimeOffset{}
		for n := vCount(0); n > 0; n-- {
			x.Items = append(x.Items, &DescriptorLocalTimeOffsetItem{CountryCode: vnondetBytes(3), CountryRegionID: vBits8(6), LocalTimeOffsetPolarity: vnondetBool(),
				LocalTimeOffset: vOffsets[vrange(0, 2)], NextTimeOffset: vOffsets[vrange(0, 2)], TimeOfChange: vTimes[vrange(0, 1)]})
		}
		d.LocalTimeOffset = x
	case 10:
		d.MaximumBitrate = &DescriptorMaximumBitrate{Bitrate: vBits32(22) * 50}
	case 11:
		d.NetworkName = &DescriptorNetworkName{Name: vnondetBytes(vLen(level))}
	case 12:
		x := &DescriptorParentalRating{}
		for n := vCount(level); n > 0; n-- {
			x.Items = append(x.Items, &DescriptorParentalRatingItem{CountryCode: vnondetBytes(3), Rating: vnondetU8()})
		}
		d.ParentalRating = x
	case 13:
		d.PrivateDataIndicator = &DescriptorPrivateDataIndicator{Indicator: vnondetU32()}
	case 14:
		d.PrivateDataSpecifier = &DescriptorPrivateDataSpecifier{Specifier: vnondetU32()}
	case 15:
		d.Registration = &DescriptorRegistration{FormatIdentifier: vnondetU32(), AdditionalIdentificationInfo: vnondetBytes(vLen(level))}
	case 16:
		d.Service = &DescriptorService{Type: vnondetU8(), Provider: vnondetBytes(vLen(level)), Name: vnondetBytes(vLen(level))}
	case 17:
		d.ShortEvent = &DescriptorShortEvent{Language: vnondetBytes(3), EventName: vnondetBytes(vLen(level)), Text: vnondetBytes(vLen(level))}
	case 18:
		d.StreamIdentifier = &DescriptorStreamIdentifier{ComponentTag: vnondetU8()}
	case 19:
		x := &DescriptorSubtitling{}
		for n := vCount(level); n > 0; n-- {
			x.Items = append(x.Items, &DescriptorSubtitlingItem{Language: vnondetBytes(3), Type: vnondetU8(), CompositionPageID: vnondetU16(), AncillaryPageID: vnondetU16()})
		}
		d.Subtitling = x
	case 20, 22:
		x := &DescriptorTeletext{}
		for n := vCount(level); n > 0; n-- {
			x.Items = append(x.Items, &DescriptorTeletextItem{Language: vnondetBytes(3), Type: vBits8(5), Magazine: vBits8(3), Page: vPage()})
		}
		if idx == 20 {
			d.Teletext = x
		} else {
			d.VBITeletext = x
		}
	case 21:
		x := &DescriptorVBIData{}
		for n := vCount(0); n > 0; n-- {
			s := &DescriptorVBIDataService{DataServiceID: vnondetU8()}
			if refIsVBIKnownService(s.DataServiceID) {
				for k := vrange(0, 2); k > 0; k-- {
					s.Descriptors = append(s.Descriptors, &DescriptorVBIDataDescriptor{FieldParity: vnondetBool(), LineOffset: vBits8(5)})
				}
			}
			x.Services = append(x.Services, s)
		}
		d.VBIData = x
	case 23:
		if level >= 0 {
			d.Tag = vnondetU8()
			vassume(d.Tag < 0x80 || d.Tag == 0xff)
			for _, t := range descTags[:23] {
				vassume(d.Tag != t)
			}
		}
		d.Unknown = &DescriptorUnknown{Tag: d.Tag, Content: vnondetBytes(vLen(level))}
	case 24:
		if level >= 0 {
			d.Tag = vnondetU8()
			vassume(d.Tag >= 0x80 && d.Tag <= 0xfe)
		}
		d.UserDefined = vnondetBytes(vLen(level))
	}
	return d
}
