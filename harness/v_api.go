package astits

// Harness API. The symbolic engine intercepts these functions by name; the bodies below are the
// native semantics used when a counterexample vector is replayed against the real build.

import "fmt"

var vVector []uint64
var vPos int
var vOpenKnown = map[string]bool{}

// vTarget: when set, only a failure of this assertion id stops the native run (a replayed counterexample for one
// assertion must not be masked by an earlier failing assertion that belongs to another property)
var vTarget string

func vSetVector(v []uint64) { vVector, vPos = v, 0 }

func vnext() uint64 {
	if vPos >= len(vVector) {
		vPos++
		return 0
	}
	x := vVector[vPos]
	vPos++
	return x
}

func vnondetBool() bool     { return vnext()&1 == 1 }
func vnondetU8() uint8      { return uint8(vnext()) }
func vnondetU16() uint16    { return uint16(vnext()) }
func vnondetU32() uint32    { return uint32(vnext()) }
func vnondetU64() uint64    { return vnext() }
func vnondetInt() int       { return int(vnext()) }
func vnondetBytes(n int) []byte {
	b := make([]byte, n)
	for i := range b {
		b[i] = uint8(vnext())
	}
	return b
}

// vrange returns an arbitrary int in [lo,hi]; the engine case-splits over every value.
func vrange(lo, hi int) int {
	x := int(vnext())
	if x < lo || x > hi {
		panic(fmt.Sprintf("VASSUME-FAIL vrange %d not in [%d,%d]", x, lo, hi))
	}
	return x
}

// vconcrete case-splits a symbolic int over its feasible values (identity natively).
func vconcrete(x int) int { return x }

func vassume(c bool) {
	if !c {
		panic("VASSUME-FAIL")
	}
}

func vassert(id string, c bool) {
	if !c && (vTarget == "" || vTarget == id) {
		panic("VASSERT-FAIL " + id)
	}
}

func vreach(id string) {}

// vknown marks the input region of a recorded (open) finding; false when the finding is not open.
func vknown(id string, c bool) bool { return vOpenKnown[id] && c }

func vlog(a ...interface{}) {}

// vassertK: assertion id whose failures inside `region` are the recorded finding kid while that
// finding is open; outside the region (or when the finding is fixed/absent) it is a plain assertion.
func vassertK(id, kid string, region, ok bool) {
	if vOpenKnown[kid] && region {
		return
	}
	vassert(id, ok)
}
