package astits

import "github.com/asticode/go-astikit"

// C12: PES headers and timestamps are decoded and encoded per ISO 13818-1.

// HarnessC12Timestamps: all 2^33 (x 2^9) values, both directions
func HarnessC12Timestamps() {
	ts := vTS33()
	prefix := vBits8(4)
	rw := &refW{}
	refPutTimestamp(rw, prefix, ts)
	cr, err := parsePTSOrDTS(astikit.NewBytesIterator(rw.b))
	vassert("C12.ts.parse", err == nil && cr.Base == int64(ts) && cr.Extension == 0)
	sink := newVSink()
	w := astikit.NewBitsWriter(astikit.BitsWriterOptions{Writer: sink})
	n, err := writePTSOrDTS(w, prefix, &ClockReference{Base: int64(ts)})
	vassert("C12.ts.write", err == nil && n == 5 && vBytesEq(sink.buf, rw.b))
	// marker bits are ignored on input
	raw := vnondetBytes(5)
	cr2, _ := parsePTSOrDTS(astikit.NewBytesIterator(raw))
	want := refGet(raw, 4, 3)<<30 | refGet(raw, 8, 15)<<15 | refGet(raw, 24, 15)
	vassert("C12.ts.parse.raw", uint64(cr2.Base) == want)

	base, ext := vTS33(), vBits16(9)
	rw2 := &refW{}
	refPutESCR(rw2, base, ext)
	cr3, err := parseESCR(astikit.NewBytesIterator(rw2.b))
	vassert("C12.escr.parse", err == nil && cr3.Base == int64(base) && cr3.Extension == int64(ext))
	sink2 := newVSink()
	w2 := astikit.NewBitsWriter(astikit.BitsWriterOptions{Writer: sink2})
	n, err = writeESCR(w2, &ClockReference{Base: int64(base), Extension: int64(ext)})
	vassert("C12.escr.write", err == nil && n == 6 && vBytesEq(sink2.buf, rw2.b))
	raw6 := vnondetBytes(6)
	cr4, _ := parseESCR(astikit.NewBytesIterator(raw6))
	wantB := refGet(raw6, 2, 3)<<30 | refGet(raw6, 6, 15)<<15 | refGet(raw6, 22, 15)
	vassert("C12.escr.parse.raw", uint64(cr4.Base) == wantB && uint64(cr4.Extension) == refGet(raw6, 38, 9))
	vreach("C12.ts.end")
}

// HarnessC12Duration: Duration() == base/90kHz + ext/27MHz truncated to ns, no overflow (cvc5 bv-as-int)
func HarnessC12Duration() {
	base, ext := vTS33(), vBits16(9)
	cr := ClockReference{Base: int64(base), Extension: int64(ext)}
	r := int64(cr.Duration())
	vassert("C12.duration.range", r >= 0 && r < 1<<57)
	// exact value E = 1000*(300*base+ext)/27 ns; R must equal floor(E) up to the 1 ns term-wise truncation may lose
	num := 1000 * (300*base + uint64(ext))
	vassert("C12.duration.lo", 27*uint64(r) <= num)
	vassert("C12.duration.hi", num < 27*(uint64(r)+2))
	vreach("C12.duration.end")
}

// HarnessC12Trick: all 256 trick mode bytes
func HarnessC12Trick() {
	b := vnondetU8()
	m := parseDSMTrickMode(b)
	r := refDecodeTrick(b)
	vassert("C12.trick.parse", m.TrickModeControl == r.control && m.FieldID == r.fieldID && m.IntraSliceRefresh == r.intra &&
		m.FrequencyTruncation == r.freq && m.RepeatControl == r.rep)
	// writing the decoded value gives the byte back (reserved bits set to 1)
	sink := newVSink()
	w := astikit.NewBitsWriter(astikit.BitsWriterOptions{Writer: sink})
	n, err := writeDSMTrickMode(w, m)
	vassert("C12.trick.write.n", err == nil && n == 1 && len(sink.buf) == 1)
	m2 := refDecodeTrick(sink.buf[0])
	vassert("C12.trick.write.rt", m2 == r)
	vreach("C12.trick.end")
}

func c12CheckOpt(h *PESOptionalHeader, o *mPESOpt) {
	vassert("C12.opt.parse.present", h != nil)
	vassert("C12.opt.parse.byte1", h.MarkerBits == 2 && h.ScramblingControl == o.scrambling && h.Priority == o.priority &&
		h.DataAlignmentIndicator == o.align && h.IsCopyrighted == o.copyright && h.IsOriginal == o.original)
	vassert("C12.opt.parse.flags", h.PTSDTSIndicator == o.ptsdts && h.HasESCR == o.hasESCR && h.HasESRate == o.hasESRate &&
		h.HasDSMTrickMode == o.hasTrick && h.HasAdditionalCopyInfo == o.hasCopy && h.HasCRC == o.hasCRC && h.HasExtension == o.hasExt)
	vassert("C12.opt.parse.hdl", int(h.HeaderLength) == refPESOptDataLen(o))
	if o.ptsdts >= 2 {
		vassert("C12.opt.parse.pts", h.PTS != nil && h.PTS.Base == int64(o.pts))
	} else {
		vassert("C12.opt.parse.nopts", h.PTS == nil)
	}
	if o.ptsdts == 3 {
		vassert("C12.opt.parse.dts", h.DTS != nil && h.DTS.Base == int64(o.dts))
	} else {
		vassert("C12.opt.parse.nodts", h.DTS == nil)
	}
	if o.hasESCR {
		vassert("C12.opt.parse.escr", h.ESCR != nil && h.ESCR.Base == int64(o.escrBase) && h.ESCR.Extension == int64(o.escrExt))
	}
	if o.hasESRate {
		vassert("C12.opt.parse.esrate", h.ESRate == o.esRate)
	}
	if o.hasTrick {
		r := refDecodeTrick(o.trick)
		m := h.DSMTrickMode
		vassert("C12.opt.parse.trick", m != nil && m.TrickModeControl == r.control && m.FieldID == r.fieldID &&
			m.IntraSliceRefresh == r.intra && m.FrequencyTruncation == r.freq && m.RepeatControl == r.rep)
	}
	if o.hasCopy {
		vassert("C12.opt.parse.copy", h.AdditionalCopyInfo == o.copyInfo)
	}
	if o.hasCRC {
		vassertK("C12.opt.parse.crc", "F1", true, h.CRC == o.crc)
	}
	if o.hasExt {
		e := &o.ext
		vassert("C12.opt.parse.ext.flags", h.HasPrivateData == e.hasPriv && h.HasPackHeaderField == e.hasPack &&
			h.HasProgramPacketSequenceCounter == e.hasSeq && h.HasPSTDBuffer == e.hasPSTD && h.HasExtension2 == e.hasExt2)
		if e.hasPriv {
			vassert("C12.opt.parse.ext.priv", vBytesEq(h.PrivateData, e.priv))
		}
		if e.hasPack {
			vassert("C12.opt.parse.ext.pack", h.PackField == e.packLen)
		}
		if e.hasSeq {
			vassert("C12.opt.parse.ext.seq", h.PacketSequenceCounter == e.seq && h.MPEG1OrMPEG2ID == e.mpeg1 && h.OriginalStuffingLength == e.origStuff)
		}
		if e.hasPSTD {
			vassert("C12.opt.parse.ext.pstd", h.PSTDBufferScale == e.pstdScale && h.PSTDBufferSize == e.pstdSize)
		}
		if e.hasExt2 {
			vassert("C12.opt.parse.ext.ext2", int(h.Extension2Length) == len(e.ext2) && vBytesEq(h.Extension2Data, e.ext2))
		}
	}
}

func c12Model(sidClass, ptsdts, flags6, level int) *mPES {
	m := &mPES{}
	switch sidClass {
	case 0:
		m.streamID = vnondetU8()
		vassume(refPESHasOpt(m.streamID))
	case 1:
		m.streamID = 0xBE
	case 2:
		m.streamID = 0xBF
	}
	if sidClass == 0 {
		eflags, ext2Len, stuffing := 0, 0, 0
		if flags6&1 != 0 {
			if level < 0 {
				eflags = 31
			} else if level > 0 || flags6 == 1 || flags6 == 63 || flags6 == 61 {
				eflags = vrange(0, 31)
			} else {
				eflags = vchoose(0, 31)
			}
			if eflags&1 != 0 {
				if level < 0 {
					ext2Len = 2
				} else if level == 0 {
					ext2Len = vchoose(0, 2)
				} else {
					ext2Len = vchoose(0, 1, 2, 64, 127)
				}
			}
		}
		if level < 0 {
			stuffing = 5
		} else if level == 0 {
			stuffing = vchoose(0, 5)
		} else {
			stuffing = vchoose(0, 1, 5, 32)
		}
		m.opt = vModelPESOpt(ptsdts, flags6, eflags, ext2Len, stuffing)
		// pack_header contents are outside the model: length 0 only (the library stores only the length byte)
		m.opt.ext.packLen = 0
		vassume(refPESOptDataLen(m.opt) <= 255)
	}
	return m
}

// c12ParseCase runs the real parser on the reference encoding with the chosen PES_packet_length case:
// 0 unbounded (0), 1 exact, 2 shorter by k, 3 longer by k, 4 shorter than the header itself
func c12ParseCase(m *mPES, plen, lenCase, k int) {
	m.payload = vnondetBytes(plen)
	exact := refPESHeaderLen(m) - 6 + plen
	var pl int
	switch lenCase {
	case 0:
		pl = 0
	case 1:
		pl = exact
	case 2:
		pl = exact - k
		vassume(pl != 0) // 0 means "unbounded", which is case 0
	case 3:
		pl = exact + k
	case 4:
		pl = refPESHeaderLen(m) - 6 - k
	}
	x := refEncodePES(m, uint16(pl))
	d, err := parsePESData(astikit.NewBytesIterator(x))
	if lenCase == 3 {
		vassert("C12.bounds.longer", err != nil)
		vreach("C12.parse.longer.end")
		return
	}
	if lenCase == 4 {
		// PES_packet_length ends inside the header: no data can be delivered
		vassert("C12.bounds.inheader", err != nil || len(d.Data) == 0)
		vreach("C12.parse.inheader.end")
		return
	}
	vassert("C12.parse.err", err == nil)
	vassert("C12.parse.sid", d.Header.StreamID == m.streamID)
	vassert("C12.parse.len", int(d.Header.PacketLength) == pl)
	if m.opt != nil {
		c12CheckOpt(d.Header.OptionalHeader, m.opt)
	} else {
		vassert("C12.parse.noopt", d.Header.OptionalHeader == nil)
	}
	want := m.payload
	if lenCase == 2 {
		want = m.payload[:plen-k]
	}
	vassert("C12.bounds.data", vBytesEq(d.Data, want))
	vreach("C12.parse.end")
}

// HarnessC12Parse: parsing the reference encoding yields the model (PES_packet_length 0 or exact)
func HarnessC12Parse(sidClass, ptsdts, flags6, level int) {
	m := c12Model(sidClass, ptsdts, flags6, level)
	c12ParseCase(m, 5, vrange(0, 1), 0)
}

// HarnessC12Bounds: payload boundaries follow PES_packet_length: exactly that many bytes when non-zero
// (shorter than what is available), an error when more is announced than is present, everything when zero.
func HarnessC12Bounds(sidClass, ptsdts, flags6, level int) {
	m := c12Model(sidClass, ptsdts, flags6, -1)
	plen := 7
	if level > 0 {
		plen = 12
	}
	lenCase := vrange(0, 4)
	k := 0
	switch lenCase {
	case 2:
		k = vrange(1, plen)
	case 3:
		k = vchoose(1, 2, 300)
	case 4:
		k = vrange(1, 3)
		vassume(refPESHeaderLen(m)-6-k >= 1)
	}
	c12ParseCase(m, plen, lenCase, k)
}

func c12ModelToHeader(m *mPES) *PESHeader {
	h := &PESHeader{StreamID: m.streamID}
	if o := m.opt; o != nil {
		x := &PESOptionalHeader{
			ScramblingControl: o.scrambling, Priority: o.priority, DataAlignmentIndicator: o.align,
			IsCopyrighted: o.copyright, IsOriginal: o.original, PTSDTSIndicator: o.ptsdts,
			HasESCR: o.hasESCR, HasESRate: o.hasESRate, HasDSMTrickMode: o.hasTrick, HasAdditionalCopyInfo: o.hasCopy,
			HasExtension: o.hasExt, ESRate: o.esRate, AdditionalCopyInfo: o.copyInfo,
		}
		if o.ptsdts >= 2 {
			x.PTS = &ClockReference{Base: int64(o.pts)}
		}
		if o.ptsdts == 3 {
			x.DTS = &ClockReference{Base: int64(o.dts)}
		}
		if o.hasESCR {
			x.ESCR = &ClockReference{Base: int64(o.escrBase), Extension: int64(o.escrExt)}
		}
		if o.hasTrick {
			r := refDecodeTrick(o.trick)
			x.DSMTrickMode = &DSMTrickMode{TrickModeControl: r.control, FieldID: r.fieldID, IntraSliceRefresh: r.intra, FrequencyTruncation: r.freq, RepeatControl: r.rep}
		}
		if o.hasExt {
			e := &o.ext
			x.HasPrivateData, x.HasProgramPacketSequenceCounter, x.HasPSTDBuffer, x.HasExtension2 = e.hasPriv, e.hasSeq, e.hasPSTD, e.hasExt2
			x.PrivateData = e.priv
			x.PacketSequenceCounter, x.MPEG1OrMPEG2ID, x.OriginalStuffingLength = e.seq, e.mpeg1, e.origStuff
			x.PSTDBufferScale, x.PSTDBufferSize = e.pstdScale, e.pstdSize
			x.Extension2Data = e.ext2
			x.Extension2Length = uint8(len(e.ext2))
		}
		h.OptionalHeader = x
	}
	return h
}

func refIsVideoID(sid uint8) bool { return sid >= 0xE0 && sid <= 0xEF || sid == 0xFD }

// HarnessC12Write: the written header is the reference encoding (fields the writer supports: no previous-PES CRC,
// no pack header); PES_packet_length is exact, or 0 where ISO allows it (video, or longer than 65535)
func HarnessC12Write(sidClass, ptsdts, flags6, level int) {
	vassume(flags6&2 == 0) // previous_PES_packet_CRC: writing not supported
	m := c12Model(sidClass, ptsdts, flags6, level)
	if m.opt != nil {
		vassume(!m.opt.ext.hasPack)
		m.opt.stuffing = 0
		if m.opt.hasTrick {
			// reserved bits of the trick-mode byte are written as ones
			r := refDecodeTrick(m.opt.trick)
			switch r.control {
			case 0, 3, 1, 4:
			case 2:
				vassume(m.opt.trick&7 == 7)
			default:
				vassume(m.opt.trick&0x1f == 0x1f)
			}
		}
	}
	payloadSize := vnondetInt()
	vassume(payloadSize >= 0 && payloadSize <= 70000)
	sink := newVSink()
	w := astikit.NewBitsWriter(astikit.BitsWriterOptions{Writer: sink})
	n, err := writePESHeader(w, c12ModelToHeader(m), payloadSize)
	vassert("C12.write.err", err == nil)
	vassert("C12.write.n", n == len(sink.buf) && n == refPESHeaderLen(m))
	got := uint16(sink.buf[4])<<8 | uint16(sink.buf[5])
	exact := refPESHeaderLen(m) - 6 + payloadSize
	if exact > 65535 {
		vassert("C12.write.len.big", got == 0)
	} else {
		vassert("C12.write.len", int(got) == exact || (got == 0 && refIsVideoID(m.streamID)))
	}
	x := refEncodePES(m, got)
	vassert("C12.write.bytes", vBytesEq(sink.buf, x))
	// round trip through the parser
	full := append(append([]byte{}, sink.buf...), vnondetBytes(3)...)
	full[4], full[5] = 0, 0
	d, err := parsePESData(astikit.NewBytesIterator(full))
	vassert("C12.rt.err", err == nil)
	if m.opt != nil {
		c12CheckOpt(d.Header.OptionalHeader, m.opt)
	}
	vreach("C12.write.end")
}
