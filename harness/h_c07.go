package astits

// Accumulator-level harnesses for C06 (duplicates) and C07 (per-PID independence): packets with fully symbolic
// header flags and opaque payload tokens are fed to the real packet pool; the flushed groups are compared.

// vHeaderPacket: a packet on pid with a symbolic continuity counter and a header class chosen among
// {payload, payload+PUSI, adaptation-only, payload+discontinuity_indicator, TEI} (nclass limits the choice)
func vHeaderPacket(pid uint16, token byte, nclass int) *Packet {
	p := &Packet{Header: PacketHeader{PID: pid, ContinuityCounter: vBits8(4), HasPayload: true}}
	switch vrange(0, nclass-1) {
	case 1:
		p.Header.PayloadUnitStartIndicator = true
	case 2:
		p.Header.HasPayload = false
		p.Header.HasAdaptationField = true
		p.AdaptationField = &PacketAdaptationField{}
	case 3:
		p.Header.HasAdaptationField = true
		p.AdaptationField = &PacketAdaptationField{DiscontinuityIndicator: true}
		p.Header.PayloadUnitStartIndicator = vnondetBool()
	case 4:
		p.Header.TransportErrorIndicator = true
	}
	if p.Header.HasPayload {
		p.Payload = []byte{0xAA, token, 0x55}
	}
	return p
}

type poolRun struct {
	groups [][]*Packet
}

// runPool feeds packets to a fresh pool and drains it at the end
func runPool(pkts []*Packet) *poolRun {
	r := &poolRun{}
	pool := newPacketPool(newProgramMap())
	for _, p := range pkts {
		if g := pool.addUnlocked(p); len(g) > 0 {
			r.groups = append(r.groups, append([]*Packet{}, g...))
		}
	}
	for {
		g := pool.dumpUnlocked()
		if len(g) == 0 {
			break
		}
		r.groups = append(r.groups, append([]*Packet{}, g...))
	}
	return r
}

func (r *poolRun) forPID(pid uint16) [][]*Packet {
	var out [][]*Packet
	for _, g := range r.groups {
		if g[0].Header.PID == pid {
			out = append(out, g)
		}
	}
	return out
}

func sameGroups(a, b [][]*Packet) bool {
	if len(a) != len(b) {
		return false
	}
	for i := range a {
		if len(a[i]) != len(b[i]) {
			return false
		}
		for j := range a[i] {
			// same packet, or a packet with the same contents (a duplicate stands in for its original)
			x, y := a[i][j], b[i][j]
			if x != y && !(x.Header == y.Header && len(x.Payload) == len(y.Payload) && (len(x.Payload) < 2 || x.Payload[1] == y.Payload[1])) {
				return false
			}
		}
	}
	return true
}

// HarnessC06Acc: n packets of one (non-PSI) PID with arbitrary headers; packet i (a payload packet) is duplicated:
// the flushed groups are those of the stream without the duplicate
func HarnessC06Acc(n, nclass int) {
	var pk []*Packet
	for i := 0; i < n; i++ {
		pk = append(pk, vHeaderPacket(0x100, byte(i), nclass))
	}
	i := vrange(0, n-1)
	vassume(pk[i].Header.HasPayload) // ISO 13818-1 2.4.3.3: only payload packets are duplicated
	dup := &Packet{Header: pk[i].Header, AdaptationField: pk[i].AdaptationField, Payload: pk[i].Payload}
	var with []*Packet
	for k, p := range pk {
		with = append(with, p)
		if k == i {
			with = append(with, dup)
		}
	}
	clean := runPool(pk)
	got := runPool(with)
	vassertK("C06.acc.dup", "F2", true, sameGroups(clean.groups, got.groups))
	vreach("C06.acc.end")
}

// HarnessC07Pool: sequences on two PIDs merged in every order-preserving way, with an inserted null / TEI /
// adaptation-only packet: the groups flushed for each PID are those of the PID alone
// pat == 1: the first PID is the PAT PID and each of its packets carries a complete (empty) section, so every packet is
// flushed on arrival and the accumulator is empty when the next one - possibly with the same counter - arrives
func HarnessC07Pool(na, nb, nclass, pat int) {
	var a, b []*Packet
	pidA := uint16(0x100)
	if pat == 1 {
		pidA = PIDPAT
	}
	for i := 0; i < na; i++ {
		p := vHeaderPacket(pidA, byte(i), nclass)
		if pat == 1 && p.Header.HasPayload {
			p.Payload = []byte{0x00, 0xff, byte(i)}
		}
		a = append(a, p)
	}
	for i := 0; i < nb; i++ {
		b = append(b, vHeaderPacket(0x101, byte(0x10+i), nclass))
	}
	var merged []*Packet
	ia, ib := 0, 0
	for ia < na || ib < nb {
		takeA := ib >= nb || (ia < na && vnondetBool())
		if takeA {
			merged = append(merged, a[ia])
			ia++
		} else {
			merged = append(merged, b[ib])
			ib++
		}
		_ = 0
	}
	// noise at one arbitrary position: a null packet, or a packet of a third PID that carries nothing deliverable
	if pos := vrange(0, len(merged)); true {
		var x *Packet
		if vnondetBool() {
			x = &Packet{Header: PacketHeader{PID: PIDNull, HasPayload: true, ContinuityCounter: vBits8(4)}, Payload: []byte{0xff}}
		} else {
			x = vHeaderPacket(0x1ff0, 0x77, 5)
			vassume(!x.Header.HasPayload || x.Header.TransportErrorIndicator)
		}
		merged = append(append(append([]*Packet{}, merged[:pos]...), x), merged[pos:]...)
	}
	alone := runPool(a)
	aloneB := runPool(b)
	all := runPool(merged)
	vassert("C07.pool.a", sameGroups(alone.forPID(pidA), all.forPID(pidA)))
	_ = PIDNull
	vassert("C07.pool.b", sameGroups(aloneB.forPID(0x101), all.forPID(0x101)))
	vreach("C07.pool.end")
}

// HarnessC07EOF: at end of stream the pending units come out in ascending PID order, each exactly once
func HarnessC07EOF() {
	pids := []uint16{vBits16(13), vBits16(13), vBits16(13)}
	vassume(pids[0] != pids[1] && pids[1] != pids[2] && pids[0] != pids[2] && pids[0] >= 0x20 && pids[1] >= 0x20 && pids[2] >= 0x20)
	pool := newPacketPool(newProgramMap())
	for i, pid := range pids {
		p := &Packet{Header: PacketHeader{PID: pid, HasPayload: true, PayloadUnitStartIndicator: true}, Payload: []byte{byte(i)}}
		vassert("C07.eof.noflush", len(pool.addUnlocked(p)) == 0)
	}
	var last uint16
	for k := 0; k < 3; k++ {
		g := pool.dumpUnlocked()
		vassert("C07.eof.one", len(g) == 1)
		if k > 0 {
			vassert("C07.eof.ascending", g[0].Header.PID > last)
		}
		last = g[0].Header.PID
	}
	vassert("C07.eof.done", len(pool.dumpUnlocked()) == 0)
	vreach("C07.eof.end")
}

// HarnessC07Data: the unit payload is assembled in a pooled buffer: stale contents and capacity of a recycled
// buffer must not influence the result
func HarnessC07Data(stale int) {
	u := mkPESPattern(0x100, 30, true, 3)
	pk := packetize(u, 0, 20, false)
	var ps []*Packet
	for _, b := range pk {
		p, err := parsePacket(astikitIter(b), nil)
		vassert("C07.data.parse", err == nil)
		ps = append(ps, p)
	}
	// poison the pool with a buffer of arbitrary contents and the given capacity
	bytesPool.put(&bytesPoolItem{s: vnondetBytes(stale)})
	ds, err := parseData(ps, nil, newProgramMap())
	vassert("C07.data.err", err == nil && len(ds) == 1)
	vassert("C07.data.payload", vBytesEq(ds[0].PES.Data, u.pes.payload))
	// the buffer went back to the pool; a second unit parsed afterwards must not change the first result
	u2 := mkPESPattern(0x100, 25, true, 5)
	var ps2 []*Packet
	for _, b := range packetize(u2, 2, 184, false) {
		p, _ := parsePacket(astikitIter(b), nil)
		ps2 = append(ps2, p)
	}
	ds2, err := parseData(ps2, nil, newProgramMap())
	vassert("C07.data.err2", err == nil && len(ds2) == 1)
	vassert("C16.data.stable", vBytesEq(ds[0].PES.Data, u.pes.payload))
	vassert("C07.data.payload2", vBytesEq(ds2[0].PES.Data, u2.pes.payload))
	vreach("C07.data.end")
}

// drainTolerant pulls NextData until end of stream, skipping errors (a caller that keeps calling)
func drainTolerant(data []byte, maxCalls int) ([]*DemuxerData, bool) {
	dmx, _ := newDmx(data)
	var out []*DemuxerData
	for k := 0; k < maxCalls; k++ {
		d, err := dmx.NextData()
		if err == ErrNoMorePackets {
			return out, true
		}
		if err == nil {
			out = append(out, d)
		}
	}
	return out, false
}

// HarnessC07Garbage: packets of a foreign PID with arbitrary header flags (including TEI, discontinuities, random
// counters, unit starts) and junk payloads inserted at two arbitrary positions never change what PID 0x100 delivers.
// gpid: the foreign PID: above 0x100 (drained after it at end of stream), below it (0xff: its junk is drained first and
// either fails to parse or parses to nothing), or the CAT PID 1 (parses to nothing by design)
func HarnessC07Garbage(gpid int) {
	s := &sStream{}
	cc := uint8(5)
	var first *sUnit
	for k, n := range []int{190, 12, 200} {
		u := mkPESPattern(0x100, n, true, k+1)
		if k == 0 {
			u = mkPESRich(0x100, n, 1)
			first = u
		}
		p := packetize(u, cc, 184, false)
		cc += uint8(len(p))
		s.add(u, p)
	}
	clean := drainAll(s.bytes())
	var pk [][]byte
	pk = append(pk, s.pkts...)
	for j := 0; j < 2; j++ {
		m := &mPacket{pid: uint16(gpid), hasPayload: true}
		m.cc = vBits8(4)
		m.pusi, m.tei = vnondetBool(), vnondetBool()
		m.payload = make([]byte, 184)
		for i := range m.payload {
			m.payload[i] = 0xC0 | byte(j)
		}
		if vnondetBool() {
			// junk that looks like the start of a PES packet whose length runs past the data
			copy(m.payload, []byte{0, 0, 1, 0xE0, 0xff, 0xff, 0x80, 0x80, 5})
		}
		pos := vrange(0, len(pk))
		pk = append(append(append([][]byte{}, pk[:pos]...), refEncodePacket(m)), pk[pos:]...)
	}
	var b []byte
	for _, p := range pk {
		b = append(b, p...)
	}
	got, ended := drainTolerant(b, 12)
	vassert("C07.garbage.terminates", ended)
	c, g := perPID(clean, 0x100), perPID(got, 0x100)
	vassert("C07.garbage.count", len(c) == len(g) && len(c) == 3)
	if len(g) == 3 {
		// compared after the whole stream has been read: private data of the first unit is still what was sent
		vassert("C07.garbage.afpriv", g[0].FirstPacket.AdaptationField != nil && vBytesEq(g[0].FirstPacket.AdaptationField.TransportPrivateData, first.afPriv))
		vassert("C07.garbage.hdrpriv", vBytesEq(g[0].PES.Header.OptionalHeader.PrivateData, first.pes.opt.ext.priv))
	}
	if len(c) == len(g) {
		for k := range c {
			vassert("C07.garbage.same", sameData(c[k], g[k]))
		}
	}
	vreach("C07.garbage.end")
}
