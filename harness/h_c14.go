package astits

import "github.com/asticode/go-astikit"

// C14: descriptors decode/encode per spec; declared lengths always match emitted bytes.

// HarnessC14Desc: for one descriptor kind: write == reference; descriptor_length == bytes emitted (whatever the
// struct's Length field holds); parse(reference) re-encodes to the reference
func HarnessC14Desc(idx, level int) {
	d := vModelDescriptor(idx, level)
	d.Length = vnondetU8() // redundant field: correct, zero or wrong
	rw := &refW{}
	refEncDescriptor(rw, d)
	bodyLen := len(rw.b) - 2
	vassume(bodyLen <= 255)

	sink := newVSink()
	w := astikit.NewBitsWriter(astikit.BitsWriterOptions{Writer: sink})
	n, err := writeDescriptor(w, d)
	vassert("C14.write.err", err == nil)
	f9 := d.Length == 0 && bodyLen > 0
	f10 := d.Tag == DescriptorTagVBIData
	vassertK("C14.write.n.vbi", "F10", f10, f9 || n == len(sink.buf))
	vassertK("C14.write.n", "F9", f9, f10 || n == len(sink.buf))
	if len(sink.buf) >= 2 {
		vassert("C14.write.tag", sink.buf[0] == d.Tag)
		vassertK("C14.write.length.vbi", "F10", f10, f9 || int(sink.buf[1]) == len(sink.buf)-2)
		vassertK("C14.write.length", "F9", f9, f10 || int(sink.buf[1]) == len(sink.buf)-2)
	}
	vassertK("C14.write.bytes.vbi", "F10", f10, f9 || vBytesEqMasked(sink.buf, rw.b, rw.m))
	vassertK("C14.write.bytes", "F9", f9, f10 || vBytesEqMasked(sink.buf, rw.b, rw.m))

	// decode the reference encoding (as a loop of one descriptor) and re-encode it
	lw := &refW{}
	refEncDescriptorLoop(lw, []*Descriptor{d})
	ds, err := parseDescriptors(astikit.NewBytesIterator(lw.b))
	vassert("C14.parse.err", err == nil)
	vassert("C14.parse.count", len(ds) == 1)
	p := ds[0]
	vassert("C14.parse.taglen", p.Tag == d.Tag && int(p.Length) == bodyLen)
	if bodyLen > 0 {
		c14CheckParsed(p, d)
		sink2 := newVSink()
		w2 := astikit.NewBitsWriter(astikit.BitsWriterOptions{Writer: sink2})
		_, err = writeDescriptor(w2, p)
		vassert("C14.rt.err", err == nil)
		vassertK("C14.rt.bytes", "F10", f10, vBytesEqMasked(sink2.buf, rw.b, rw.m))
	}
	vreach("C14.desc.end")
}

// c14CheckParsed: direct field comparison for the kinds where it is cheap; the others are covered by
// the re-encoding check (the reference encoding is injective on the encoded fields)
func c14CheckParsed(p, d *Descriptor) {
	switch d.Tag {
	case DescriptorTagStreamIdentifier:
		vassert("C14.parse.streamid", p.StreamIdentifier != nil && p.StreamIdentifier.ComponentTag == d.StreamIdentifier.ComponentTag)
	case DescriptorTagMaximumBitrate:
		vassert("C14.parse.maxbitrate", p.MaximumBitrate != nil && p.MaximumBitrate.Bitrate == d.MaximumBitrate.Bitrate)
	case DescriptorTagPrivateDataIndicator:
		vassert("C14.parse.pdi", p.PrivateDataIndicator != nil && p.PrivateDataIndicator.Indicator == d.PrivateDataIndicator.Indicator)
	case DescriptorTagPrivateDataSpecifier:
		vassert("C14.parse.pds", p.PrivateDataSpecifier != nil && p.PrivateDataSpecifier.Specifier == d.PrivateDataSpecifier.Specifier)
	case DescriptorTagRegistration:
		vassert("C14.parse.reg", p.Registration != nil && p.Registration.FormatIdentifier == d.Registration.FormatIdentifier &&
			vBytesEq(p.Registration.AdditionalIdentificationInfo, d.Registration.AdditionalIdentificationInfo))
	case DescriptorTagISO639LanguageAndAudioType:
		vassert("C14.parse.iso639", p.ISO639LanguageAndAudioType != nil && p.ISO639LanguageAndAudioType.Type == d.ISO639LanguageAndAudioType.Type &&
			vBytesEq(p.ISO639LanguageAndAudioType.Language, d.ISO639LanguageAndAudioType.Language))
	case DescriptorTagService:
		vassert("C14.parse.service", p.Service != nil && p.Service.Type == d.Service.Type && vBytesEq(p.Service.Provider, d.Service.Provider) && vBytesEq(p.Service.Name, d.Service.Name))
	case DescriptorTagAVCVideo:
		a, b := p.AVCVideo, d.AVCVideo
		vassert("C14.parse.avc", a != nil && *a == *b)
	case DescriptorTagTeletext:
		vassert("C14.parse.teletext.count", p.Teletext != nil && len(p.Teletext.Items) == len(d.Teletext.Items))
		for i, it := range d.Teletext.Items {
			q := p.Teletext.Items[i]
			vassert("C14.parse.teletext.item", q.Type == it.Type && q.Magazine == it.Magazine && q.Page == it.Page && vBytesEq(q.Language, it.Language))
		}
	case DescriptorTagSubtitling:
		vassert("C14.parse.subtitling.count", p.Subtitling != nil && len(p.Subtitling.Items) == len(d.Subtitling.Items))
		for i, it := range d.Subtitling.Items {
			q := p.Subtitling.Items[i]
			vassert("C14.parse.subtitling.item", q.Type == it.Type && q.CompositionPageID == it.CompositionPageID && q.AncillaryPageID == it.AncillaryPageID && vBytesEq(q.Language, it.Language))
		}
	}
	if d.Tag >= 0x80 && d.Tag <= 0xfe {
		vassert("C14.parse.userdefined", vBytesEq(p.UserDefined, d.UserDefined))
	}
}

// HarnessC14Loop: the 12-bit loop length equals the bytes that follow, for loops of 0..3 descriptors of mixed kinds
func HarnessC14Loop(i0, i1, i2, n int) {
	var ds []*Descriptor
	idx := []int{i0, i1, i2}
	for k := 0; k < n; k++ {
		d := vModelDescriptor(idx[k], 0)
		d.Length = uint8(refDescBodyLen(d))
		if vnondetBool() {
			d.Length = vnondetU8()
			vassume(d.Length != 0 || refDescBodyLen(d) == 0) // Length 0 with a body is finding F9 (HarnessC14Desc)
		}
		ds = append(ds, d)
	}
	lw := &refW{}
	refEncDescriptorLoop(lw, ds)
	sink := newVSink()
	w := astikit.NewBitsWriter(astikit.BitsWriterOptions{Writer: sink})
	nw, err := writeDescriptorsWithLength(w, ds)
	vassert("C14.loop.err", err == nil)
	vassert("C14.loop.n", nw == len(sink.buf))
	vassert("C14.loop.len", len(sink.buf) >= 2 && int(uint16(sink.buf[0]&0xf)<<8|uint16(sink.buf[1])) == len(sink.buf)-2)
	vassert("C14.loop.bytes", vBytesEqMasked(sink.buf, lw.b, lw.m))
	vreach("C14.loop.end")
}

// HarnessC14Skip: a descriptor accounts for exactly its declared length on input: whatever tag and body the first
// descriptor has, the marker descriptor behind it is decoded from offset 2+L; no panic on any body
func HarnessC14Skip(L int) {
	tag := vnondetU8()
	body := vnondetBytes(L)
	marker := vnondetU8()
	buf := []byte{0xf0, byte(2 + L + 3), tag, byte(L)}
	buf = append(buf, body...)
	buf = append(buf, DescriptorTagStreamIdentifier, 1, marker)
	ds, err := parseDescriptors(astikit.NewBytesIterator(buf))
	if err == nil {
		vassert("C14.skip.count", len(ds) == 2)
		vassert("C14.skip.first", ds[0].Tag == tag && int(ds[0].Length) == L)
		vassert("C14.skip.second", ds[1].Tag == DescriptorTagStreamIdentifier && ds[1].Length == 1 &&
			ds[1].StreamIdentifier != nil && ds[1].StreamIdentifier.ComponentTag == marker)
		vreach("C14.skip.ok")
	} else {
		vreach("C14.skip.err")
	}
}

// vSetLangLen replaces every fixed-size code field (ISO 639 language / country codes, 3 bytes in the formats) of the
// descriptor by a slice of L bytes: the writers pad or cut these fields to 3 bytes, and the length calculators must
// agree with them whatever the slice length is
func vSetLangLen(d *Descriptor, L int) bool {
	code := func() []byte { return vnondetBytes(L) }
	switch d.Tag {
	case DescriptorTagComponent:
		d.Component.ISO639LanguageCode = code()
	case DescriptorTagExtendedEvent:
		d.ExtendedEvent.ISO639LanguageCode = code()
	case DescriptorTagISO639LanguageAndAudioType:
		d.ISO639LanguageAndAudioType.Language = code()
	case DescriptorTagShortEvent:
		d.ShortEvent.Language = code()
	case DescriptorTagLocalTimeOffset:
		for _, it := range d.LocalTimeOffset.Items {
			it.CountryCode = code()
			// the polarity flag is the last bit of its byte: case-split it (a merged CRC state is not syntactically
			// equal to the one-pass CRC, see DESIGN.md)
			it.LocalTimeOffsetPolarity = vrange(0, 1) == 1
		}
	case DescriptorTagParentalRating:
		for _, it := range d.ParentalRating.Items {
			it.CountryCode = code()
		}
	case DescriptorTagSubtitling:
		for _, it := range d.Subtitling.Items {
			it.Language = code()
		}
	case DescriptorTagTeletext:
		for _, it := range d.Teletext.Items {
			it.Language = code()
		}
	case DescriptorTagVBITeletext:
		for _, it := range d.VBITeletext.Items {
			it.Language = code()
		}
	case DescriptorTagExtension:
		if d.Extension.SupplementaryAudio == nil || !d.Extension.SupplementaryAudio.HasLanguageCode {
			return false
		}
		d.Extension.SupplementaryAudio.LanguageCode = code()
	default:
		return false
	}
	return true
}

// HarnessC14LangLen: descriptor_length, the loop length and the PMT section_length equal the bytes emitted when a
// 3-byte code field of the value is given with L bytes (C14, C09)
func HarnessC14LangLen(idx, L int) {
	d := vModelDescriptor(idx, 0)
	if !vSetLangLen(d, L) {
		vreach("C14.langlen.end")
		return
	}
	d.Length = vnondetU8()
	vassume(d.Length != 0)
	sink := newVSink()
	w := astikit.NewBitsWriter(astikit.BitsWriterOptions{Writer: sink})
	n, err := writeDescriptorsWithLength(w, []*Descriptor{d, {Tag: DescriptorTagStreamIdentifier, Length: 1, StreamIdentifier: &DescriptorStreamIdentifier{ComponentTag: 0x5a}}})
	vassert("C14.langlen.err", err == nil)
	out := sink.buf
	vassert("C14.langlen.n", n == len(out) && len(out) >= 4)
	vassert("C14.langlen.loop", int(uint16(out[0]&0xf)<<8|uint16(out[1])) == len(out)-2)
	dl := vconcrete(int(out[3]))
	// the stream identifier descriptor follows exactly behind the declared length
	vassert("C14.langlen.desc", 4+dl+3 == len(out) && out[4+dl] == DescriptorTagStreamIdentifier && out[4+dl+1] == 1 && out[4+dl+2] == 0x5a)
	// the same descriptor inside a PMT: section_length and CRC_32 (C09)
	pmt := &PMTData{ProgramNumber: 1, PCRPID: 0x100, ElementaryStreams: []*PMTElementaryStream{{StreamType: StreamTypeAACAudio, ElementaryPID: 0x100, ElementaryStreamDescriptors: []*Descriptor{d}}}}
	sec := &PSISection{Header: &PSISectionHeader{TableID: PSITableIDPMT, SectionSyntaxIndicator: true},
		Syntax: &PSISectionSyntax{Header: &PSISectionSyntaxHeader{TableIDExtension: 1, CurrentNextIndicator: true}, Data: &PSISectionSyntaxData{PMT: pmt}}}
	sec.Header.SectionLength = calcPSISectionLength(sec)
	sink2 := newVSink()
	w2 := astikit.NewBitsWriter(astikit.BitsWriterOptions{Writer: sink2})
	_, err = writePSIData(w2, &PSIData{Sections: []*PSISection{sec}})
	vassert("C09.out.desc.err", err == nil)
	got := sink2.buf[1:]
	vassert("C09.out.desc.length", int(uint16(got[1]&0xf)<<8|uint16(got[2])) == len(got)-3)
	crc := uint32(got[len(got)-4])<<24 | uint32(got[len(got)-3])<<16 | uint32(got[len(got)-2])<<8 | uint32(got[len(got)-1])
	vassert("C09.out.desc.crc", crc == computeCRC32(got[:len(got)-4]))
	vreach("C14.langlen.end")
}

// HarnessC09Desc: a PMT whose elementary stream carries one descriptor of the idx-th kind (every shape the model draws:
// optional parts present or absent, counts, variable-length fields): ES_info_length, section_length and the position
// and value of the CRC_32 match the bytes actually written (the calc*Length helpers agree with the writers)
func HarnessC09Desc(idx, level int) {
	d := vModelDescriptor(idx, level)
	d.Length = vnondetU8()
	// flags that end a byte are case-split: the writer flushes - and feeds the CRC callback - inside the branch, and a
	// merged CRC state is not syntactically equal to the one-pass CRC (DESIGN.md, pitfalls)
	split := func(p *bool) { *p = vrange(0, 1) == 1 }
	if x := d.EnhancedAC3; x != nil {
		split(&x.HasSubStream3)
		split(&x.HasSubStream2)
		split(&x.HasSubStream1)
		split(&x.MixInfoExists)
		split(&x.HasASVC)
		split(&x.HasMainID)
		split(&x.HasBSID)
		split(&x.HasComponentType)
	}
	if x := d.LocalTimeOffset; x != nil {
		for _, it := range x.Items {
			split(&it.LocalTimeOffsetPolarity)
		}
	}
	pmt := &PMTData{ProgramNumber: 1, PCRPID: 0x100, ElementaryStreams: []*PMTElementaryStream{{StreamType: StreamTypeAACAudio, ElementaryPID: 0x100, ElementaryStreamDescriptors: []*Descriptor{d}}}}
	sec := &PSISection{Header: &PSISectionHeader{TableID: PSITableIDPMT, SectionSyntaxIndicator: true},
		Syntax: &PSISectionSyntax{Header: &PSISectionSyntaxHeader{TableIDExtension: 1, CurrentNextIndicator: true}, Data: &PSISectionSyntaxData{PMT: pmt}}}
	sec.Header.SectionLength = calcPSISectionLength(sec)
	sink := newVSink()
	w := astikit.NewBitsWriter(astikit.BitsWriterOptions{Writer: sink})
	_, err := writePSIData(w, &PSIData{Sections: []*PSISection{sec}})
	vassert("C09.out.desc.err", err == nil)
	got := sink.buf[1:]
	f10 := d.Tag == DescriptorTagVBIData
	vassertK("C09.out.desc.length", "F10", f10, int(uint16(got[1]&0xf)<<8|uint16(got[2])) == len(got)-3)
	// table_id..program_info_length 12 bytes, stream_type + PID 3 bytes, then ES_info_length
	vassertK("C09.out.desc.eslen", "F10", f10, len(got) >= 21 && int(uint16(got[15]&0xf)<<8|uint16(got[16])) == len(got)-17-4)
	crc := uint32(got[len(got)-4])<<24 | uint32(got[len(got)-3])<<16 | uint32(got[len(got)-2])<<8 | uint32(got[len(got)-1])
	vassert("C09.out.desc.crc", crc == computeCRC32(got[:len(got)-4]))
	vreach("C09.desc.end")
}

// HarnessC14LoopBig: descriptor bodies at the top of the 8-bit length range (L in 250..255) inside a loop: the 12-bit
// loop length still equals the bytes emitted (2 + L per descriptor does not fit 8 bits), bytes equal the reference
func HarnessC14LoopBig(L, n int) {
	var ds []*Descriptor
	for k := 0; k < n; k++ {
		body := make([]byte, L)
		for i := range body {
			body[i] = byte(0x20 + (i+k)%0x50)
		}
		body[0] = vnondetU8()
		ds = append(ds, &Descriptor{Tag: 0x90, Length: uint8(L), UserDefined: body})
	}
	ds = append(ds, &Descriptor{Tag: DescriptorTagStreamIdentifier, Length: 1, StreamIdentifier: &DescriptorStreamIdentifier{ComponentTag: vnondetU8()}})
	lw := &refW{}
	refEncDescriptorLoop(lw, ds)
	sink := newVSink()
	w := astikit.NewBitsWriter(astikit.BitsWriterOptions{Writer: sink})
	nw, err := writeDescriptorsWithLength(w, ds)
	vassert("C14.loopbig.err", err == nil)
	vassert("C14.loopbig.n", nw == len(sink.buf))
	vassert("C14.loopbig.len", len(sink.buf) >= 2 && int(uint16(sink.buf[0]&0xf)<<8|uint16(sink.buf[1])) == len(sink.buf)-2)
	vassert("C14.loopbig.bytes", vBytesEqMasked(sink.buf, lw.b, lw.m))
	vassert("C14.loopbig.calc", int(calcDescriptorsLength(ds)) == len(sink.buf)-2)
	vreach("C14.loopbig.end")
}
