package astits

// Bit-level reference writer (MSB first) used by every reference encoder. It shares nothing with the
// implementation's BitsWriter.

type refW struct {
	b []byte
	m []byte // care mask: 0 bits are reserved positions whose value the reference does not prescribe
	n int    // bits written
}

func (w *refW) put(nbits int, v uint64) { w.putm(nbits, v, true) }

// reserved writes nbits reserved bits (as ones) and marks them "don't care"
func (w *refW) reserved(nbits int) { w.putm(nbits, ^uint64(0), false) }

func (w *refW) putm(nbits int, v uint64, care bool) {
	if w.n%8 == 0 && nbits%8 == 0 {
		for k := nbits - 8; k >= 0; k -= 8 {
			w.b = append(w.b, byte(v>>uint(k)))
			if care {
				w.m = append(w.m, 0xff)
			} else {
				w.m = append(w.m, 0)
			}
		}
		w.n += nbits
		return
	}
	for i := nbits - 1; i >= 0; i-- {
		if w.n%8 == 0 {
			w.b = append(w.b, 0)
			w.m = append(w.m, 0)
		}
		bit := byte(v>>uint(i)) & 1
		w.b[len(w.b)-1] |= bit << uint(7-w.n%8)
		if care {
			w.m[len(w.m)-1] |= 1 << uint(7-w.n%8)
		}
		w.n++
	}
}

func (w *refW) flag(f bool) {
	v := uint64(0)
	if f {
		v = 1
	}
	w.put(1, v)
}

func (w *refW) bytes(p []byte) {
	if w.n%8 != 0 {
		panic("refW.bytes: unaligned")
	}
	w.b = append(w.b, p...)
	for range p {
		w.m = append(w.m, 0xff)
	}
	w.n += 8 * len(p)
}

func (w *refW) fill(n int, v byte) {
	for i := 0; i < n; i++ {
		w.put(8, uint64(v))
	}
}

func (w *refW) len() int { return len(w.b) }

// refGet reads nbits at bit offset pos (MSB first)
func refGet(b []byte, pos, nbits int) uint64 {
	var v uint64
	for i := 0; i < nbits; i++ {
		p := pos + i
		v = v<<1 | uint64(b[p/8]>>uint(7-p%8)&1)
	}
	return v
}

// vchoose returns one of the listed values (case-split by the engine)
func vchoose(vals ...int) int { return vals[vrange(0, len(vals)-1)] }

func b2i(b bool) int {
	if b {
		return 1
	}
	return 0
}

// vBytesEqMasked compares under a care mask
func vBytesEqMasked(got, want, mask []byte) bool {
	if len(got) != len(want) {
		return false
	}
	eq := true
	for i := range got {
		eq = eq && (got[i]^want[i])&mask[i] == 0
	}
	return eq
}
