package astits

// Bit-level reference writer (MSB first) used by every reference encoder. It shares nothing with the
// implementation's BitsWriter.

type refW struct {
	b []byte
	n int // bits written
}

func (w *refW) put(nbits int, v uint64) {
	if w.n%8 == 0 && nbits%8 == 0 {
		for k := nbits - 8; k >= 0; k -= 8 {
			w.b = append(w.b, byte(v>>uint(k)))
		}
		w.n += nbits
		return
	}
	for i := nbits - 1; i >= 0; i-- {
		if w.n%8 == 0 {
			w.b = append(w.b, 0)
		}
		bit := byte(v>>uint(i)) & 1
		w.b[len(w.b)-1] |= bit << uint(7-w.n%8)
		w.n++
	}
}

func (w *refW) flag(f bool) {
	v := uint64(0)
	if f {
		v = 1
	}
	w.put(1, v)
}

func (w *refW) bytes(p []byte) {
	if w.n%8 != 0 {
		panic("refW.bytes: unaligned")
	}
	w.b = append(w.b, p...)
	w.n += 8 * len(p)
}

func (w *refW) fill(n int, v byte) {
	for i := 0; i < n; i++ {
		w.put(8, uint64(v))
	}
}

func (w *refW) len() int { return len(w.b) }

// refGet reads nbits at bit offset pos (MSB first)
func refGet(b []byte, pos, nbits int) uint64 {
	var v uint64
	for i := 0; i < nbits; i++ {
		p := pos + i
		v = v<<1 | uint64(b[p/8]>>uint(7-p%8)&1)
	}
	return v
}

// vchoose returns one of the listed values (case-split by the engine)
func vchoose(vals ...int) int { return vals[vrange(0, len(vals)-1)] }

func b2i(b bool) int {
	if b {
		return 1
	}
	return 0
}
