package astits

import "time"

// Reference encoders of PSI/SI sections, written from ISO/IEC 13818-1 2.4.4 and EN 300 468 5.2.
// The library's table structs are the model. CRC_32 is computed with computeCRC32 (the polynomial itself
// is pinned by C10); what these references fix is which bytes are covered and where every field sits.

type mSection struct {
	tableID              uint8
	ssi, private         bool
	ext                  uint16
	version              uint8 // 5 bits
	cni                  bool
	secNum, lastSecNum   uint8
	pat                  *PATData
	pmt                  *PMTData
	sdt                  *SDTData
	nit                  *NITData
	eit                  *EITData
	tot                  *TOTData
}

func refHasSyntaxHeader(id uint8) bool {
	return id == 0x00 || id == 0x02 || id == 0x40 || id == 0x41 || id == 0x42 || id == 0x46 || (id >= 0x4e && id <= 0x6f)
}

func refHasCRC(id uint8) bool { return refHasSyntaxHeader(id) || id == 0x73 }

// refEncLoopWithPrefix: 4 prefix bits (given, or reserved when care == false), 12-bit length, descriptors
func refEncLoopWithPrefix(w *refW, prefix uint8, care bool, ds []*Descriptor) {
	inner := &refW{}
	for _, d := range ds {
		refEncDescriptor(inner, d)
	}
	if care {
		w.put(4, uint64(prefix))
	} else {
		w.reserved(4)
	}
	w.put(12, uint64(len(inner.b)))
	w.b = append(w.b, inner.b...)
	w.m = append(w.m, inner.m...)
	w.n += 8 * len(inner.b)
}

func refPutDVBTime(w *refW, t time.Time) {
	w.put(16, uint64(refMJDFromCivil(uint16(t.Year()), uint16(t.Month()), uint16(t.Day()))))
	tod := int64(t.Sub(t.Truncate(24*time.Hour)) / time.Second)
	w.put(8, uint64(refBCD(uint8(tod/3600))))
	w.put(8, uint64(refBCD(uint8(tod/60%60))))
	w.put(8, uint64(refBCD(uint8(tod%60))))
}

func refPutDVBSeconds(w *refW, d time.Duration) {
	s := int64(d / time.Second)
	w.put(8, uint64(refBCD(uint8(s/3600))))
	w.put(8, uint64(refBCD(uint8(s/60%60))))
	w.put(8, uint64(refBCD(uint8(s%60))))
}

func refEncSectionData(w *refW, s *mSection) {
	switch {
	case s.pat != nil:
		for _, p := range s.pat.Programs {
			w.put(16, uint64(p.ProgramNumber))
			w.put(3, 7)
			w.put(13, uint64(p.ProgramMapID))
		}
	case s.pmt != nil:
		w.put(3, 7)
		w.put(13, uint64(s.pmt.PCRPID))
		refEncLoopWithPrefix(w, 0xf, true, s.pmt.ProgramDescriptors)
		for _, es := range s.pmt.ElementaryStreams {
			w.put(8, uint64(es.StreamType))
			w.put(3, 7)
			w.put(13, uint64(es.ElementaryPID))
			refEncLoopWithPrefix(w, 0xf, true, es.ElementaryStreamDescriptors)
		}
	case s.sdt != nil:
		w.put(16, uint64(s.sdt.OriginalNetworkID))
		w.reserved(8)
		for _, sv := range s.sdt.Services {
			w.put(16, uint64(sv.ServiceID))
			w.reserved(6)
			w.flag(sv.HasEITSchedule)
			w.flag(sv.HasEITPresentFollowing)
			p := sv.RunningStatus << 1
			if sv.HasFreeCSAMode {
				p |= 1
			}
			refEncLoopWithPrefix(w, p, true, sv.Descriptors)
		}
	case s.nit != nil:
		refEncLoopWithPrefix(w, 0, false, s.nit.NetworkDescriptors)
		inner := &refW{}
		for _, ts := range s.nit.TransportStreams {
			inner.put(16, uint64(ts.TransportStreamID))
			inner.put(16, uint64(ts.OriginalNetworkID))
			refEncLoopWithPrefix(inner, 0, false, ts.TransportDescriptors)
		}
		w.reserved(4)
		w.put(12, uint64(len(inner.b)))
		w.b = append(w.b, inner.b...)
		w.m = append(w.m, inner.m...)
		w.n += 8 * len(inner.b)
	case s.eit != nil:
		w.put(16, uint64(s.eit.TransportStreamID))
		w.put(16, uint64(s.eit.OriginalNetworkID))
		w.put(8, uint64(s.eit.SegmentLastSectionNumber))
		w.put(8, uint64(s.eit.LastTableID))
		for _, e := range s.eit.Events {
			w.put(16, uint64(e.EventID))
			refPutDVBTime(w, e.StartTime)
			refPutDVBSeconds(w, e.Duration)
			p := e.RunningStatus << 1
			if e.HasFreeCSAMode {
				p |= 1
			}
			refEncLoopWithPrefix(w, p, true, e.Descriptors)
		}
	case s.tot != nil:
		refPutDVBTime(w, s.tot.UTCTime)
		refEncLoopWithPrefix(w, 0, false, s.tot.Descriptors)
	}
}

// refEncSection returns the complete section including CRC_32 where the table carries one
func refEncSection(s *mSection) (b, m []byte) {
	body := &refW{}
	if refHasSyntaxHeader(s.tableID) {
		body.put(16, uint64(s.ext))
		body.put(2, 3)
		body.put(5, uint64(s.version))
		body.flag(s.cni)
		body.put(8, uint64(s.secNum))
		body.put(8, uint64(s.lastSecNum))
	}
	refEncSectionData(body, s)
	n := len(body.b)
	if refHasCRC(s.tableID) {
		n += 4
	}
	w := &refW{}
	w.put(8, uint64(s.tableID))
	w.flag(s.ssi)
	w.flag(s.private)
	w.put(2, 3)
	w.put(12, uint64(n))
	w.b = append(w.b, body.b...)
	w.m = append(w.m, body.m...)
	w.n += 8 * len(body.b)
	if refHasCRC(s.tableID) {
		w.put(32, uint64(computeCRC32(w.b)))
	}
	return w.b, w.m
}

// ---- symbolic table models ----

var vRichLoops int

// vDescLoop: descriptor loop of a table model. The first loop of a model is "rich" (0..1 (thorough 0..2) descriptors of
// kinds stream-identifier / unknown / user-defined with 0 or 2 body bytes); the others are {empty, one stream identifier}
// in the quick tier, to bound the number of layouts.
func vDescLoop(level int) []*Descriptor {
	var ds []*Descriptor
	max := 1
	if level > 0 {
		max = 2
	}
	vRichLoops++
	if level < 0 || (level == 0 && vRichLoops > 1) {
		if vnondetBool() {
			d := vModelDescriptor(18, -1)
			d.Length = 1
			ds = append(ds, d)
		}
		return ds
	}
	for n := vrange(0, max); n > 0; n-- {
		d := vModelDescriptor(vchoose(18, 23, 24), -1)
		d.Length = uint8(refDescBodyLen(d))
		ds = append(ds, d)
	}
	return ds
}

func vSectionHeader(s *mSection) {
	s.ssi, s.private = true, vnondetBool()
	s.ext = vnondetU16()
	s.version = vBits8(5)
	s.cni = vnondetBool()
	s.secNum, s.lastSecNum = vnondetU8(), vnondetU8()
}

// vModelSection: kind 0 PAT, 1 PMT, 2 SDT, 3 NIT, 4 EIT, 5 TOT; n = loop count
func vModelSection(kind, n, level int) *mSection {
	vRichLoops = 0
	s := &mSection{}
	vSectionHeader(s)
	switch kind {
	case 0:
		s.tableID = 0x00
		s.pat = &PATData{TransportStreamID: s.ext}
		for i := 0; i < n; i++ {
			s.pat.Programs = append(s.pat.Programs, &PATProgram{ProgramNumber: vnondetU16(), ProgramMapID: vBits16(13)})
		}
	case 1:
		s.tableID = 0x02
		s.pmt = &PMTData{ProgramNumber: s.ext, PCRPID: vBits16(13), ProgramDescriptors: vDescLoop(level)}
		for i := 0; i < n; i++ {
			s.pmt.ElementaryStreams = append(s.pmt.ElementaryStreams, &PMTElementaryStream{StreamType: StreamType(vnondetU8()), ElementaryPID: vBits16(13), ElementaryStreamDescriptors: vDescLoop(level)})
		}
	case 2:
		s.tableID = uint8(vchoose(0x42, 0x46))
		s.sdt = &SDTData{TransportStreamID: s.ext, OriginalNetworkID: vnondetU16()}
		for i := 0; i < n; i++ {
			s.sdt.Services = append(s.sdt.Services, &SDTDataService{ServiceID: vnondetU16(), HasEITSchedule: vnondetBool(), HasEITPresentFollowing: vnondetBool(),
				RunningStatus: vBits8(3), HasFreeCSAMode: vnondetBool(), Descriptors: vDescLoop(level)})
		}
	case 3:
		s.tableID = uint8(vchoose(0x40, 0x41))
		s.nit = &NITData{NetworkID: s.ext, NetworkDescriptors: vDescLoop(level)}
		for i := 0; i < n; i++ {
			s.nit.TransportStreams = append(s.nit.TransportStreams, &NITDataTransportStream{TransportStreamID: vnondetU16(), OriginalNetworkID: vnondetU16(), TransportDescriptors: vDescLoop(level)})
		}
	case 4:
		s.tableID = vnondetU8()
		vassume(s.tableID >= 0x4e && s.tableID <= 0x6f)
		s.eit = &EITData{ServiceID: s.ext, TransportStreamID: vnondetU16(), OriginalNetworkID: vnondetU16(), SegmentLastSectionNumber: vnondetU8(), LastTableID: vnondetU8()}
		for i := 0; i < n; i++ {
			s.eit.Events = append(s.eit.Events, &EITDataEvent{EventID: vnondetU16(), StartTime: vTimes[vrange(0, 1)], Duration: vOffsets[vrange(0, 2)] + 59*time.Second,
				RunningStatus: vBits8(3), HasFreeCSAMode: vnondetBool(), Descriptors: vDescLoop(level)})
		}
	case 5:
		s.tableID = 0x73
		s.ssi = vnondetBool()
		s.tot = &TOTData{UTCTime: vTimes[vrange(0, 1)], Descriptors: vDescLoop(level)}
	}
	return s
}

func descLoopsEqual(a, b []*Descriptor) bool {
	wa, wb := &refW{}, &refW{}
	refEncDescriptorLoop(wa, a)
	refEncDescriptorLoop(wb, b)
	return vBytesEqMasked(wa.b, wb.b, wb.m)
}
