package astits

import (
	"bufio"
	"errors"
	"io"
)

// C08: demuxer output depends on the stream's bytes, not on how they are read or framed.

// c08Stream: PAT, PMT and two PES units (5 packets) with recognisable contents
func c08Stream() *sStream {
	s := &sStream{}
	// concrete tables: symbolic section fields would make the CRC_32 bytes symbolic, and auto-detection compares
	// every byte with the sync byte
	ps := mkPAT(0x1000)
	ps.ext, ps.version = 0x1234, 7
	ps.pat.TransportStreamID = 0x1234
	pat := mkPSI(0, 1, []*mSection{ps}, 0, 0)
	s.add(pat, packetize(pat, 0, 184, true))
	ms := mkPMT(0x100)
	ms.version = 3
	pmt := mkPSI(0x1000, 2, []*mSection{ms}, 0, 0)
	s.add(pmt, packetize(pmt, 0, 184, true))
	e1 := mkPESRich(0x100, 200, 1)
	p1 := packetize(e1, 4, 184, false)
	s.add(e1, p1)
	e2 := mkPESPattern(0x100, 9, true, 2)
	s.add(e2, packetize(e2, 4+uint8(len(p1)), 184, false))
	return s
}

// widen turns 188-byte packets into size-byte packets in the library's layout (extra bytes follow the sync byte)
func widen(pkts [][]byte, size int) []byte {
	var b []byte
	for _, p := range pkts {
		b = append(b, p[0])
		for i := 188; i < size; i++ {
			b = append(b, 0xEE)
		}
		b = append(b, p[1:]...)
	}
	return b
}

type vBufioLess struct{ r *vReader } // plain reader (no Seek, not bufio)

func (v vBufioLess) Read(p []byte) (int, error) { return v.r.Read(p) }

func c08Reader(kind int, data []byte, chunks []int) (io.Reader, *vReader) {
	switch kind {
	case 0: // seekable
		sr := newVSeekReader(data)
		sr.chunks = chunks
		return sr, &sr.vReader
	case 1: // plain
		r := newVReader(data)
		r.chunks = chunks
		return vBufioLess{r}, r
	case 3: // bufio with a buffer smaller than a packet
		r := newVReader(data)
		r.chunks = chunks
		return bufio.NewReaderSize(vBufioLess{r}, 64), r
	default: // bufio over a fragmenting reader
		r := newVReader(data)
		r.chunks = chunks
		return bufio.NewReaderSize(vBufioLess{r}, 4096), r
	}
}

func drainReader(r io.Reader, size int) ([]*DemuxerData, error) {
	var dmx *Demuxer
	if size > 0 {
		dmx = NewDemuxer(vCtx{}, r, DemuxerOptPacketSize(size))
	} else {
		dmx = NewDemuxer(vCtx{}, r)
	}
	var out []*DemuxerData
	for k := 0; k < 20; k++ {
		d, err := dmx.NextData()
		if err == ErrNoMorePackets {
			return out, nil
		}
		if err != nil {
			return out, err
		}
		out = append(out, d)
	}
	return out, errors.New("did not terminate")
}

func sameSeq(a, b []*DemuxerData) bool {
	if len(a) != len(b) {
		return false
	}
	for i := range a {
		if !sameData(a[i], b[i]) {
			return false
		}
	}
	return true
}

// HarnessC08Chunks: the same stream read in one piece and through a reader that returns short reads (three
// successive read sizes from a representative set, then unlimited), for every reader kind, explicit or auto size
func HarnessC08Chunks(kind, auto, size int) {
	s := c08Stream()
	data := widen(s.pkts, size)
	ref, err := drainReader(newVReader(data), size)
	vassert("C08.ref.err", err == nil && len(ref) == 4)
	sizes := []int{1, 2, 100, size - 1, size, size + 1, 193, 400}
	chunks := []int{sizes[vrange(0, 7)], sizes[vrange(0, 7)], sizes[vrange(0, 7)]}
	r, _ := c08Reader(kind, data, chunks)
	psize := size
	if auto == 1 {
		psize = 0
	}
	got, err := drainReader(r, psize)
	// F11: auto-detection through a single Read on non-bufio readers fails when that Read returns too few bytes to
	// contain the second sync byte (fewer than size+1); with size+1 bytes or more the detection must work
	f11 := auto == 1 && kind != 2 && chunks[0] <= size
	if auto == 1 && kind == 1 && (chunks[0] < 193 || chunks[1] < size-(193-size)) {
		// same defect on the plain-reader path: the resynchronisation assumes that the peek consumed all 193 bytes
		// and skips to the next packet boundary with one Read
		f11 = true
	}
	vassertK("C08.chunks.err", "F11", f11, err == nil)
	if err == nil {
		if kind == 1 && auto == 1 {
			vassertK("C08.chunks.plain.suffix", "F11", f11, len(got) <= len(ref) && sameSeq(ref[len(ref)-len(got):], got))
		} else {
			vassertK("C08.chunks.same", "F11", f11, sameSeq(ref, got))
		}
	}
	vreach("C08.chunks.end")
}

// HarnessC08Auto: auto-detection for every packet size 188..192 on every reader kind (one-shot reads): nothing is
// lost or altered, whatever follows the first packet
func HarnessC08Auto(kind, size int) {
	s := c08Stream()
	data := widen(s.pkts, size)
	ref, err := drainReader(newVReader(data), size)
	vassert("C08.ref.err", err == nil && len(ref) == 4)
	r, _ := c08Reader(kind, data, nil)
	got, err := drainReader(r, 0)
	vassert("C08.auto.err", err == nil)
	if kind == 1 {
		// a plain reader cannot be rewound: the property does not promise the packets consumed by the detection,
		// but nothing that is delivered may be altered
		vassert("C08.auto.plain.suffix", len(got) <= len(ref) && sameSeq(ref[len(ref)-len(got):], got))
	} else {
		vassert("C08.auto.same", sameSeq(ref, got))
	}
	vreach("C08.auto.end")
}

// HarnessC08Size: a packet carried in 188+k bytes (extra bytes arbitrary) parses to the same packet as its 188-byte
// form, for every header/adaptation-field layout of the C11 model
func HarnessC08Size(k, afc, flags int) {
	m := c11Model(afc, flags, 0)
	b := refEncodePacket(m)
	wide := []byte{0x47}
	wide = append(wide, vnondetBytes(k)...)
	wide = append(wide, b[1:]...)
	p, err := parsePacket(astikitIter(wide), nil)
	vassert("C08.size.err", err == nil)
	c11CheckParsed(p, m)
	// and through the demuxer with an explicit packet size
	dmx := NewDemuxer(vCtx{}, newVReader(append(append([]byte{}, wide...), wide...)), DemuxerOptPacketSize(188+k))
	q, err := dmx.NextPacket()
	vassert("C08.size.next.err", err == nil)
	vassert("C08.size.next.header", q.Header == p.Header && vBytesEq(q.Payload, p.Payload))
	_, err = dmx.NextPacket()
	vassert("C08.size.next2.err", err == nil)
	_, err = dmx.NextPacket()
	vassert("C08.size.eof", err == ErrNoMorePackets)
	vreach("C08.size.end")
}

// HarnessC08Short: the shortest streams on which auto-detection can work: one packet (the PAT) followed by the first
// `extra` bytes of the next one, so the input ends inside the 193-byte detection window: on a seekable or bufio reader
// the packet is delivered exactly as with the explicit size
func HarnessC08Short(kind, size, extra int) {
	s := c08Stream()
	data := widen(s.pkts[:2], size)[:size+extra]
	ref, err := drainReader(newVReader(data), size)
	vassert("C08.ref.err", err == nil && len(ref) == 1)
	r, _ := c08Reader(kind, data, nil)
	got, err := drainReader(r, 0)
	// F16 (fixed): bufio / plain readers failed with EOF when the input ended inside the window
	f16 := kind != 0 && size+extra < 193
	vassertK("C08.short.err", "F16", f16, err == nil)
	if kind == 1 {
		vassert("C08.short.plain.suffix", len(got) <= len(ref) && sameSeq(ref[len(ref)-len(got):], got))
	} else {
		vassertK("C08.short.same", "F16", f16, sameSeq(ref, got))
	}
	vreach("C08.short.end")
}

// drainEvents keeps calling NextData after errors (at most max calls): delivered data, number of errors, and whether the
// end of the stream was reached
func drainEvents(r io.Reader, size, max int) (out []*DemuxerData, nerr int, ended bool) {
	var dmx *Demuxer
	if size > 0 {
		dmx = NewDemuxer(vCtx{}, r, DemuxerOptPacketSize(size))
	} else {
		dmx = NewDemuxer(vCtx{}, r)
	}
	for k := 0; k < max; k++ {
		d, err := dmx.NextData()
		if err == ErrNoMorePackets {
			return out, nerr, true
		}
		if err != nil {
			nerr++
			continue
		}
		out = append(out, d)
	}
	return out, nerr, false
}

// HarnessC08Bad: a stream with one damaged packet (sync byte destroyed, or an adaptation_field_length pointing beyond
// the packet) at an arbitrary position: data, number of errors and end of stream are the same for every reader kind
func HarnessC08Bad(kind, how int) {
	s := c08Stream()
	i := vrange(0, len(s.pkts)-1)
	var data []byte
	for k, p := range s.pkts {
		q := append([]byte{}, p...)
		if k == i {
			if how == 0 {
				q[0] = 0x00
			} else {
				q[3] |= 0x20 // adaptation field present ...
				q[4] = 0xf0  // ... and longer than the packet
			}
		}
		data = append(data, q...)
	}
	ref, refErr, refEnded := drainEvents(newVReader(data), 188, 14)
	vassert("C08.bad.ref", refEnded)
	r, _ := c08Reader(kind, data, nil)
	got, nerr, ended := drainEvents(r, 188, 14)
	vassert("C08.bad.ended", ended)
	vassert("C08.bad.errors", nerr == refErr)
	vassert("C08.bad.same", sameSeq(ref, got))
	vreach("C08.bad.end")
}
