package astits

// C06: duplicate packets are harmless; packet loss never yields spliced or foreign data.
// C07: what is delivered for a PID depends only on that PID's packets.

func drainAll(data []byte) []*DemuxerData {
	dmx, _ := newDmx(data)
	var out []*DemuxerData
	for {
		d, err := dmx.NextData()
		if err == ErrNoMorePackets {
			return out
		}
		vassert("C06.drain.err", err == nil)
		out = append(out, d)
	}
}

// sameData: two deliveries describe the same unit
func sameData(a, b *DemuxerData) bool {
	if a.PID != b.PID || (a.PES != nil) != (b.PES != nil) || (a.SDT != nil) != (b.SDT != nil) || (a.PAT != nil) != (b.PAT != nil) || (a.PMT != nil) != (b.PMT != nil) {
		return false
	}
	if a.PES != nil {
		afa, afb := a.FirstPacket.AdaptationField, b.FirstPacket.AdaptationField
		if (afa == nil) != (afb == nil) || (afa != nil && !vBytesEq(afa.TransportPrivateData, afb.TransportPrivateData)) {
			return false
		}
		return vBytesEq(a.PES.Data, b.PES.Data) && a.PES.Header.StreamID == b.PES.Header.StreamID &&
			a.PES.Header.OptionalHeader.PTS.Base == b.PES.Header.OptionalHeader.PTS.Base &&
			vBytesEq(a.PES.Header.OptionalHeader.PrivateData, b.PES.Header.OptionalHeader.PrivateData)
	}
	if a.SDT != nil {
		return a.SDT.TransportStreamID == b.SDT.TransportStreamID && a.SDT.OriginalNetworkID == b.SDT.OriginalNetworkID && len(a.SDT.Services) == len(b.SDT.Services)
	}
	if a.PAT != nil {
		return a.PAT.TransportStreamID == b.PAT.TransportStreamID && len(a.PAT.Programs) == len(b.PAT.Programs)
	}
	if a.PMT != nil {
		return a.PMT.ProgramNumber == b.PMT.ProgramNumber && a.PMT.PCRPID == b.PMT.PCRPID
	}
	return true
}

func perPID(ds []*DemuxerData, pid uint16) []*DemuxerData {
	var out []*DemuxerData
	for _, d := range ds {
		if d.PID == pid {
			out = append(out, d)
		}
	}
	return out
}

// c06Stream: PID 0x100 carries 4 PES units of 2,1,3,1 packets; PID 0x11 carries 2 SDT units of 2 and 1 packets;
// interleaved in a fixed pattern
func c06Stream() *sStream {
	s := &sStream{}
	var esU, psU []*sUnit
	var esP, psP [][][]byte
	cc := uint8(14) // wraps inside the stream
	for k, n := range []int{190, 20, 400, 7} {
		u := mkPESPattern(0x100, n, n != 400, k+1)
		p := packetize(u, cc, 184, false)
		cc += uint8(len(p))
		esU = append(esU, u)
		esP = append(esP, p)
	}
	c2 := uint8(3)
	for i, first := range []int{20, 184} {
		u := mkPSI(0x11, 3, []*mSection{mkSDT(1 + i)}, 0, 0)
		p := packetize(u, c2, first, false)
		c2 += uint8(len(p))
		psU = append(psU, u)
		psP = append(psP, p)
	}
	// fixed interleaving: E E P E P E E E P E
	order := []int{0, 0, 1, 0, 1, 0, 0, 0, 1, 0}
	iu, ip := []int{0, 0}, []int{0, 0}
	for _, src := range order {
		us, ps := esU, esP
		if src == 1 {
			us, ps = psU, psP
		}
		if iu[src] >= len(us) {
			continue
		}
		u := us[iu[src]]
		if ip[src] == 0 {
			s.units = append(s.units, u)
		}
		ui := 0
		for i, x := range s.units {
			if x == u {
				ui = i
			}
		}
		s.pkts = append(s.pkts, ps[iu[src]][ip[src]])
		s.pktUnit = append(s.pktUnit, ui)
		ip[src]++
		if ip[src] == len(ps[iu[src]]) {
			iu[src]++
			ip[src] = 0
		}
	}
	return s
}

// c06TailStream: two PES PIDs; the last unit of the LOWER PID (0x100) has two packets, the second of which carries only a
// 4-byte tail. When the first packet of that unit is lost the tail is all that is pending on 0x100 at end of stream,
// while the higher PID 0x101 still has its last unit pending. kind 0: the tail is 00 00 01 0b (looks like the start of a
// PES packet and fails to parse); kind 1: the tail is not a start code (parses to nothing).
// Order: A1 B1 A2a B2 A2b.
func c06TailStream(kind int) *sStream {
	s := &sStream{}
	a1 := mkPESPattern(0x100, 20, true, 1)
	b1 := mkPESPattern(0x101, 20, true, 2)
	a2 := mkPESPattern(0x100, 174, true, 3)
	if kind == 0 {
		copy(a2.pes.payload[170:], []byte{0, 0, 1, 0x0b})
		a2.bytes = refEncodePES(a2.pes, uint16(refPESHeaderLen(a2.pes)-6+174))
	}
	b2 := mkPESPattern(0x101, 30, true, 4)
	pa1 := packetize(a1, 3, 184, false)
	pa2 := packetize(a2, 4, 184, false)
	pb1 := packetize(b1, 9, 184, false)
	pb2 := packetize(b2, 10, 184, false)
	s.units = []*sUnit{a1, b1, a2, b2}
	s.pkts = [][]byte{pa1[0], pb1[0], pa2[0], pb2[0], pa2[1]}
	s.pktUnit = []int{0, 1, 2, 3, 2}
	return s
}

// HarnessC06Dup: every single-packet duplication position (the duplicate follows the original immediately on its
// PID; packets of the other PID may lie in between when gap == 1)
func HarnessC06Dup(gap int) {
	s := c06Stream()
	clean := drainAll(s.bytes())
	i := vrange(0, len(s.pkts)-1)
	var b []byte
	for k, p := range s.pkts {
		b = append(b, p...)
		if k == i {
			if gap == 1 && k+1 < len(s.pkts) && s.units[s.pktUnit[k+1]].pid != s.units[s.pktUnit[k]].pid {
				// the duplicate arrives after the next packet of the other PID
				continue
			}
			b = append(b, p...)
		} else if gap == 1 && k == i+1 && s.units[s.pktUnit[k]].pid != s.units[s.pktUnit[i]].pid {
			b = append(b, s.pkts[i]...)
		}
	}
	got := drainAll(b)
	dupPID := s.units[s.pktUnit[i]].pid
	for _, pid := range []uint16{0x100, 0x11} {
		c, g := perPID(clean, pid), perPID(got, pid)
		kid := "F2"
		vassertK("C06.dup.count", kid, pid == dupPID, len(c) == len(g))
		if len(c) == len(g) {
			for k := range c {
				vassert("C06.dup.same", sameData(c[k], g[k]))
			}
		}
	}
	vreach("C06.dup.end")
}

// HarnessC06Loss: every deletion of a run of 1..3 consecutive packets of one PID that is followed by a later
// payload packet of that PID: what is still delivered is a subsequence of the clean deliveries (never a splice), the
// other PID is unaffected, and only units that lost a packet or immediately precede the gap may be missing
func HarnessC06Loss(run, variant int) {
	s := c06Stream()
	if variant > 0 {
		s = c06TailStream(variant - 1)
	}
	clean := drainAll(s.bytes())
	i := vrange(0, len(s.pkts)-1)
	lossPID := s.units[s.pktUnit[i]].pid
	// delete `run` consecutive packets of lossPID starting at i
	var b []byte
	deleted := 0
	lostUnits := map[int]bool{}
	lastBefore := -1
	later := false
	for k, p := range s.pkts {
		u := s.units[s.pktUnit[k]]
		if k >= i && u.pid == lossPID && deleted < run {
			deleted++
			lostUnits[s.pktUnit[k]] = true
			continue
		}
		if u.pid == lossPID {
			if k < i {
				lastBefore = s.pktUnit[k]
			} else {
				later = true
			}
		}
		b = append(b, p...)
	}
	vassume(deleted == run && later)
	got := drainAll(b)
	// other PIDs unaffected
	seenPID := map[uint16]bool{lossPID: true}
	for _, u := range s.units {
		if seenPID[u.pid] {
			continue
		}
		seenPID[u.pid] = true
		co, gotO := perPID(clean, u.pid), perPID(got, u.pid)
		vassert("C06.loss.other.count", len(co) == len(gotO))
		if len(co) == len(gotO) {
			for k := range co {
				vassert("C06.loss.other.same", sameData(co[k], gotO[k]))
			}
		}
	}
	// faulted PID: subsequence of the clean deliveries
	c, g := perPID(clean, lossPID), perPID(got, lossPID)
	// clean deliveries of this PID correspond 1:1 (in order) to the units of this PID
	var unitIdx []int
	for ui, u := range s.units {
		if u.pid == lossPID {
			unitIdx = append(unitIdx, ui)
		}
	}
	vassert("C06.loss.clean.count", len(c) == len(unitIdx))
	j := 0
	for _, d := range g {
		found := false
		for j < len(c) {
			if sameData(c[j], d) {
				found = true
				j++
				break
			}
			// clean unit c[j] is missing from the faulted output: allowed only if it lost a packet or precedes the gap
			vassert("C06.loss.missing.allowed", lostUnits[unitIdx[j]] || unitIdx[j] == lastBefore)
			j++
		}
		vassert("C06.loss.nosplice", found)
	}
	for ; j < len(c); j++ {
		vassert("C06.loss.missing.allowed", lostUnits[unitIdx[j]] || unitIdx[j] == lastBefore)
	}
	vreach("C06.loss.end")
}
