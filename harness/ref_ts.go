package astits

// Reference model and encoder of a TS packet, written from ISO/IEC 13818-1 2.4.3.2 - 2.4.3.5.

type mAFExt struct {
	hasLTW, hasPW, hasSS bool
	ltwValid             bool
	ltwOffset            uint16 // 15 bits
	pwRate               uint32 // 22 bits
	spliceType           uint8  // 4 bits
	dts                  uint64 // 33 bits
}

type mAF struct {
	zeroLen                                         bool // adaptation_field_length == 0
	disc, rai, esp                                  bool
	hasPCR, hasOPCR, hasSplice, hasPriv, hasExt     bool
	pcrBase, opcrBase                               uint64 // 33 bits
	pcrExt, opcrExt                                 uint16 // 9 bits
	splice                                          uint8
	priv                                            []byte
	ext                                             mAFExt
	stuffing                                        int
}

type mPacket struct {
	tei, pusi, prio   bool
	pid               uint16 // 13 bits
	tsc               uint8  // 2 bits
	hasAF, hasPayload bool
	cc                uint8 // 4 bits
	af                mAF
	payload           []byte
}

func refAFExtLen(e *mAFExt) int {
	n := 1
	if e.hasLTW {
		n += 2
	}
	if e.hasPW {
		n += 3
	}
	if e.hasSS {
		n += 5
	}
	return n
}

// refAFLen is the value of adaptation_field_length
func refAFLen(a *mAF) int {
	if a.zeroLen {
		return 0
	}
	n := 1
	if a.hasPCR {
		n += 6
	}
	if a.hasOPCR {
		n += 6
	}
	if a.hasSplice {
		n++
	}
	if a.hasPriv {
		n += 1 + len(a.priv)
	}
	if a.hasExt {
		n += 1 + refAFExtLen(&a.ext)
	}
	return n + a.stuffing
}

func refPutPCR(w *refW, base uint64, ext uint16) {
	w.put(33, base)
	w.put(6, 0x3f)
	w.put(9, uint64(ext))
}

func refPutTimestamp(w *refW, prefix uint8, ts uint64) {
	w.put(4, uint64(prefix))
	w.put(3, ts>>30)
	w.put(1, 1)
	w.put(15, ts>>15)
	w.put(1, 1)
	w.put(15, ts)
	w.put(1, 1)
}

func refEncodeAF(w *refW, a *mAF) {
	w.put(8, uint64(refAFLen(a)))
	if a.zeroLen {
		return
	}
	w.flag(a.disc)
	w.flag(a.rai)
	w.flag(a.esp)
	w.flag(a.hasPCR)
	w.flag(a.hasOPCR)
	w.flag(a.hasSplice)
	w.flag(a.hasPriv)
	w.flag(a.hasExt)
	if a.hasPCR {
		refPutPCR(w, a.pcrBase, a.pcrExt)
	}
	if a.hasOPCR {
		refPutPCR(w, a.opcrBase, a.opcrExt)
	}
	if a.hasSplice {
		w.put(8, uint64(a.splice))
	}
	if a.hasPriv {
		w.put(8, uint64(len(a.priv)))
		w.bytes(a.priv)
	}
	if a.hasExt {
		e := &a.ext
		w.put(8, uint64(refAFExtLen(e)))
		w.flag(e.hasLTW)
		w.flag(e.hasPW)
		w.flag(e.hasSS)
		w.put(5, 0x1f)
		if e.hasLTW {
			w.flag(e.ltwValid)
			w.put(15, uint64(e.ltwOffset))
		}
		if e.hasPW {
			w.put(2, 3)
			w.put(22, uint64(e.pwRate))
		}
		if e.hasSS {
			refPutTimestamp(w, e.spliceType, e.dts)
		}
	}
	w.fill(a.stuffing, 0xff)
}

func refEncodeTSHeader(w *refW, m *mPacket) {
	w.put(8, 0x47)
	w.flag(m.tei)
	w.flag(m.pusi)
	w.flag(m.prio)
	w.put(13, uint64(m.pid))
	w.put(2, uint64(m.tsc))
	w.flag(m.hasAF)
	w.flag(m.hasPayload)
	w.put(4, uint64(m.cc))
}

// refEncodePacket returns the 188-byte reference encoding (payload is expected to fill the packet; a
// shorter payload is padded with 0xFF as the library's writer documents)
func refEncodePacket(m *mPacket) []byte {
	w := &refW{}
	refEncodeTSHeader(w, m)
	if m.hasAF {
		refEncodeAF(w, &m.af)
	}
	if m.hasPayload {
		w.bytes(m.payload)
	}
	for w.len() < 188 {
		w.put(8, 0xff)
	}
	return w.b
}

// ---- symbolic models ----

func vTS33() uint64 {
	x := vnondetU64()
	vassume(x < 1<<33)
	return x
}

func vBits16(n uint) uint16 {
	x := vnondetU16()
	vassume(x < 1<<n)
	return x
}

func vBits8(n uint) uint8 {
	x := vnondetU8()
	vassume(x < 1<<n)
	return x
}

func vBits32(n uint) uint32 {
	x := vnondetU32()
	vassume(x < 1<<n)
	return x
}

// vModelAF draws an adaptation field whose optional-part subset is `flags` (bit4 PCR, bit3 OPCR, bit2 splice,
// bit1 private, bit0 extension) and extension subset `eflags` (bit2 LTW, bit1 piecewise, bit0 seamless).
// privLen and stuffing are concrete; every value is symbolic.
func vModelAF(flags, eflags, privLen, stuffing int) mAF {
	a := mAF{}
	a.disc, a.rai, a.esp = vnondetBool(), vnondetBool(), vnondetBool()
	a.hasPCR = flags&16 != 0
	a.hasOPCR = flags&8 != 0
	a.hasSplice = flags&4 != 0
	a.hasPriv = flags&2 != 0
	a.hasExt = flags&1 != 0
	if a.hasPCR {
		a.pcrBase, a.pcrExt = vTS33(), vBits16(9)
	}
	if a.hasOPCR {
		a.opcrBase, a.opcrExt = vTS33(), vBits16(9)
	}
	if a.hasSplice {
		a.splice = vnondetU8()
	}
	if a.hasPriv {
		a.priv = vnondetBytes(privLen)
	}
	if a.hasExt {
		e := &a.ext
		e.hasLTW = eflags&4 != 0
		e.hasPW = eflags&2 != 0
		e.hasSS = eflags&1 != 0
		if e.hasLTW {
			e.ltwValid, e.ltwOffset = vnondetBool(), vBits16(15)
		}
		if e.hasPW {
			e.pwRate = vBits32(22)
		}
		if e.hasSS {
			e.spliceType, e.dts = vBits8(4), vTS33()
		}
	}
	a.stuffing = stuffing
	return a
}

func vModelHeader(m *mPacket) {
	m.tei, m.pusi, m.prio = vnondetBool(), vnondetBool(), vnondetBool()
	m.pid = vBits16(13)
	m.tsc = vBits8(2)
	m.cc = vBits8(4)
}

// modelToPacket builds the library's Packet from the model (consistent: flags <=> pointers, lengths match)
func modelToPacket(m *mPacket) *Packet {
	p := &Packet{Header: PacketHeader{
		ContinuityCounter: m.cc, HasAdaptationField: m.hasAF, HasPayload: m.hasPayload,
		PayloadUnitStartIndicator: m.pusi, PID: m.pid, TransportErrorIndicator: m.tei,
		TransportPriority: m.prio, TransportScramblingControl: m.tsc,
	}}
	if m.hasAF {
		a := &m.af
		af := &PacketAdaptationField{
			DiscontinuityIndicator: a.disc, RandomAccessIndicator: a.rai, ElementaryStreamPriorityIndicator: a.esp,
			HasPCR: a.hasPCR, HasOPCR: a.hasOPCR, HasSplicingCountdown: a.hasSplice,
			HasTransportPrivateData: a.hasPriv, HasAdaptationExtensionField: a.hasExt,
			StuffingLength: a.stuffing, IsOneByteStuffing: a.zeroLen,
		}
		if a.hasPCR {
			af.PCR = &ClockReference{Base: int64(a.pcrBase), Extension: int64(a.pcrExt)}
		}
		if a.hasOPCR {
			af.OPCR = &ClockReference{Base: int64(a.opcrBase), Extension: int64(a.opcrExt)}
		}
		if a.hasSplice {
			af.SpliceCountdown = int(a.splice)
		}
		if a.hasPriv {
			af.TransportPrivateData = a.priv
			af.TransportPrivateDataLength = len(a.priv)
		}
		if a.hasExt {
			e := &a.ext
			x := &PacketAdaptationExtensionField{
				HasLegalTimeWindow: e.hasLTW, HasPiecewiseRate: e.hasPW, HasSeamlessSplice: e.hasSS,
				LegalTimeWindowIsValid: e.ltwValid, LegalTimeWindowOffset: e.ltwOffset,
				PiecewiseRate: e.pwRate, SpliceType: e.spliceType,
			}
			if e.hasSS {
				x.DTSNextAccessUnit = &ClockReference{Base: int64(e.dts)}
			}
			af.AdaptationExtensionField = x
		}
		p.AdaptationField = af
	}
	if m.hasPayload {
		p.Payload = m.payload
	}
	return p
}
