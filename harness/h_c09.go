package astits

import "github.com/asticode/go-astikit"

// C09: tables are delivered only with a valid CRC_32; muxed sections carry a valid one.
// (The output side is asserted in HarnessC13Encode and in the Muxer harnesses: C09.out.*)

// HarnessC09HasCRC: the set of table ids that carry a CRC_32 / a syntax header, for all 2^8 ids
func HarnessC09HasCRC() {
	id := vnondetU8()
	vassert("C09.hascrc", PSITableID(id).hasCRC32() == refHasCRC(id))
	vassert("C09.hassyntax", PSITableID(id).hasPSISyntaxHeader() == refHasSyntaxHeader(id))
	vreach("C09.hascrc.end")
}

// HarnessC09In: an arbitrary byte string of 3+L bytes offered as a section of the given table id (every byte
// symbolic: this subsumes every bit flip, substitution, burst, truncation and extension of every section of that
// size). If the library accepts it, the CRC_32 at the end of the declared length is the CRC of what precedes it.
func HarnessC09In(tableID, L int) {
	sec := vnondetBytes(3 + L)
	sec[0] = byte(tableID)
	declared := int(sec[1]&0xf)<<8 | int(sec[2])
	vassume(declared <= L)
	declared = vconcrete(declared)
	s, stop, err := parsePSISection(astikit.NewBytesIterator(sec))
	if err != nil {
		vreach("C09.in.rejected")
		return
	}
	if stop {
		// unknown / null table id: nothing is parsed, nothing can be delivered
		vassert("C09.in.stop", s.Syntax == nil)
		vreach("C09.in.stopped")
		return
	}
	if declared > 0 && refHasCRC(uint8(tableID)) {
		end := 3 + declared
		if end >= 4 {
			want := uint32(0)
			if end-4 >= 0 {
				want = computeCRC32(sec[:end-4])
			}
			got := uint32(sec[end-4])<<24 | uint32(sec[end-3])<<16 | uint32(sec[end-2])<<8 | uint32(sec[end-1])
			vassert("C09.in.crc", got == want)
			vassert("C09.in.field", s.CRC32 == got)
		}
		vreach("C09.in.accepted")
	} else {
		vreach("C09.in.nocrc")
	}
}

// HarnessC09Repeat: the same Demuxer sees a valid PAT and then, on the next continuity counter, a copy in which one
// body byte is altered while table_id, section_length and the CRC_32 field are intact (every position, four masks):
// the copy is never delivered as a table (the CRC check runs on every section, whatever was seen before)
func HarnessC09Repeat() {
	ps := mkPAT(0x1000)
	ps.ext, ps.version = 0x1234, 7
	ps.pat.TransportStreamID = 0x1234
	u := mkPSI(0, 1, []*mSection{ps}, 0, 0)
	p1 := packetize(u, 4, 184, true)
	p2 := packetize(u, 5, 184, true)
	vassert("C09.repeat.layout", len(p1) == 1 && len(p2) == 1)
	secLen := len(u.bytes) - 1
	// byte positions of the section inside the packet: 4 header bytes + pointer_field, then the section
	pos := vrange(3, secLen-5) // behind table_id/section_length, before the CRC_32 field
	// (concrete masks: with a symbolic byte the CRC comparison becomes a solver query that is only decided for short
	// sections; acceptance => valid CRC for arbitrary bytes is HarnessC09In - this harness is about state across units)
	x := byte(vchoose(0x01, 0x80, 0xff, 0x5a))
	bad := append([]byte{}, p2[0]...)
	bad[5+pos] ^= x
	data := append(append([]byte{}, p1[0]...), bad...)
	dmx, _ := newDmx(data)
	d, err := dmx.NextData()
	vassert("C09.repeat.first", err == nil && d != nil && d.PAT != nil && d.PAT.TransportStreamID == 0x1234)
	d2, err2 := dmx.NextData()
	vassert("C09.repeat.rejected", d2 == nil && err2 != nil && err2 != ErrNoMorePackets)
	_, err3 := dmx.NextData()
	vassert("C09.repeat.end", err3 == ErrNoMorePackets)
	vreach("C09.repeat.end")
}
