package astits

// C10: the section checksum is CRC-32/MPEG-2.

func refCRCStep(s uint32, b uint8) uint32 {
	s ^= uint32(b) << 24
	for i := 0; i < 8; i++ {
		if s&0x80000000 != 0 {
			s = (s << 1) ^ 0x04C11DB7
		} else {
			s <<= 1
		}
	}
	return s
}

func HarnessC10Step() {
	s, b := vnondetU32(), vnondetU8()
	got := updateCRC32(s, []byte{b})
	vassert("C10.step", got == refCRCStep(s, b))
	vreach("C10.step.end")
}

// refCRCBitwise: CRC-32/MPEG-2 of m, bit-serial (poly 0x04C11DB7, init 0xFFFFFFFF, MSB first, no reflection, no final XOR)
func refCRCBitwise(m []byte) uint32 {
	s := uint32(0xFFFFFFFF)
	for _, b := range m {
		s = refCRCStep(s, b)
	}
	return s
}

// HarnessC10Table: every table entry is the 8-round shift register image of its index
func HarnessC10Table() {
	i := vnondetU8()
	vassert("C10.table", tableCRC32[i] == refCRCStep(0, i))
	vreach("C10.table.end")
}

// HarnessC10Init: initial value 0xFFFFFFFF, no final XOR; computeCRC32 is updateCRC32 from the initial value
func HarnessC10Init(n int) {
	vassert("C10.init.empty", computeCRC32(nil) == 0xFFFFFFFF)
	m := vnondetBytes(n)
	vassert("C10.init.compute", computeCRC32(m) == updateCRC32(0xFFFFFFFF, m))
	vreach("C10.init.end")
}

// HarnessC10Chunk: feeding the input in two pieces (every split point) or byte by byte gives the one-pass value
func HarnessC10Chunk(n int) {
	s := vnondetU32()
	m := vnondetBytes(n)
	k := vrange(0, n)
	vassert("C10.chunk.split", updateCRC32(updateCRC32(s, m[:k]), m[k:]) == updateCRC32(s, m))
	t := s
	for _, b := range m {
		t = updateCRC32(t, []byte{b})
	}
	vassert("C10.chunk.bytewise", t == updateCRC32(s, m))
	vreach("C10.chunk.end")
}

// HarnessC10Full: whole-message equivalence with the bit-serial reference for every message of length n
func HarnessC10Full(n int) {
	m := vnondetBytes(n)
	vassert("C10.full", computeCRC32(m) == refCRCBitwise(m))
	vreach("C10.full.end")
}

// HarnessC10Residue: a message followed by its big-endian checksum has residue 0 (s = the state after the message)
func HarnessC10Residue() {
	s := vnondetU32()
	r := updateCRC32(s, []byte{byte(s >> 24), byte(s >> 16), byte(s >> 8), byte(s)})
	vassert("C10.residue", r == 0)
	vreach("C10.residue.end")
}

// HarnessC10Sparse: messages of n bytes that are zero except for 4 arbitrary bytes at offset off, from an arbitrary
// state: one call equals byte-wise feeding. (Zero runs and words equal to the running state are where block-wise
// implementations take shortcuts; with 64 symbolic bits the query stays within reach of the solver.)
func HarnessC10Sparse(n, off int) {
	s := vnondetU32()
	m := make([]byte, n)
	copy(m[off:], vnondetBytes(4))
	t := s
	for _, b := range m {
		t = updateCRC32(t, []byte{b})
	}
	vassert("C10.sparse", t == updateCRC32(s, m))
	vreach("C10.sparse.end")
}
