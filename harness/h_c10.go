package astits

// C10: the section checksum is CRC-32/MPEG-2.

func refCRCStep(s uint32, b uint8) uint32 {
	s ^= uint32(b) << 24
	for i := 0; i < 8; i++ {
		if s&0x80000000 != 0 {
			s = (s << 1) ^ 0x04C11DB7
		} else {
			s <<= 1
		}
	}
	return s
}

func HarnessC10Step() {
	s, b := vnondetU32(), vnondetU8()
	got := updateCRC32(s, []byte{b})
	vassert("C10.step", got == refCRCStep(s, b))
	vreach("C10.step.end")
}
