package astits

import (
	"time"

	"github.com/asticode/go-astikit"
)

// C15: DVB date/time and BCD durations convert exactly over their whole range.

// ---- reference: integer Gregorian arithmetic, valid for 1900-03-01 .. 2100-02-28 (every 4th year is leap) ----

// refCivilFromMJD: MJD -> (year, month, day) for mjd >= 15079
func refCivilFromMJD(mjd uint16) (y, m, d uint16) {
	n := mjd - 15079 // days since 1900-03-01
	cycle := n / 1461
	r := n % 1461
	yoc := r / 365
	if yoc > 3 {
		yoc = 3
	}
	doy := r - 365*yoc // 0-based day of the March-based year
	mp := (5*doy + 2) / 153
	d = doy - (153*mp+2)/5 + 1
	if mp < 10 {
		m = mp + 3
	} else {
		m = mp - 9
	}
	y = 1900 + 4*cycle + yoc
	if m <= 2 {
		y++
	}
	return
}

// refMJDFromCivil: (year, month, day) -> MJD for dates from 1900-03-01
func refMJDFromCivil(y, m, d uint16) uint16 {
	if m <= 2 {
		y--
		m += 9
	} else {
		m -= 3
	}
	yy := y - 1900
	return 15079 + 1461*(yy/4) + 365*(yy%4) + (153*m+2)/5 + d - 1
}

func refDaysInMonth(y, m uint16) uint16 {
	switch m {
	case 4, 6, 9, 11:
		return 30
	case 2:
		if y%4 == 0 && y != 1900 {
			return 29
		}
		return 28
	}
	return 31
}

func refBCD(n uint8) uint8 { return (n/10)<<4 | n%10 }

// ---- BCD ----

func HarnessC15BCDByte() {
	b := vnondetU8()
	got := parseDVBDurationByte(b)
	vassert("C15.bcd.parse", int64(got) == int64(b>>4)*10+int64(b&0xf))
	n := vnondetU8()
	vassume(n < 100)
	r := dvbDurationByteRepresentation(n)
	vassert("C15.bcd.repr", r>>4 == n/10 && r&0xf == n%10)
	vassert("C15.bcd.rt", parseDVBDurationByte(r) == time.Duration(n))
	vreach("C15.bcd.end")
}

func HarnessC15DurParse() {
	b := vnondetBytes(3)
	d2, err := parseDVBDurationMinutes(astikit.NewBytesIterator(b[:2]))
	h := int64(b[0]>>4)*10 + int64(b[0]&0xf)
	m := int64(b[1]>>4)*10 + int64(b[1]&0xf)
	s := int64(b[2]>>4)*10 + int64(b[2]&0xf)
	vassert("C15.dur.parse.min", err == nil && int64(d2) == (h*3600+m*60)*1000000000)
	d3, err := parseDVBDurationSeconds(astikit.NewBytesIterator(b))
	vassert("C15.dur.parse.sec", err == nil && int64(d3) == (h*3600+m*60+s)*1000000000)
	vreach("C15.dur.parse.end")
}

// HarnessC15DurWrite: hh:mm:ss (+ any sub-second fraction) is written as its BCD digits
// (the hour value is a concrete shard: the exact floating-point query over all 100 hours at once does not finish)
// minute >= 0 additionally fixes the minute (quick tier of the seconds writer)
func HarnessC15DurWrite(which, hour, minute int) {
	h, m, s := uint8(hour), vnondetU8(), vnondetU8()
	vassume(m < 60 && s < 60)
	if minute >= 0 {
		m = uint8(minute)
	}
	frac := vnondetU32()
	vassume(frac < 1000000000)
	d := time.Duration((int64(h)*3600+int64(m)*60+int64(s))*1000000000 + int64(frac))
	// staged lemmas on the std conversions the writers use (same terms, so the later obligations reuse them)
	vassert("C15.dur.lemma.hours", int(d.Hours()) == int(h))
	vassert("C15.dur.lemma.minutes", int(d.Minutes()) == int(h)*60+int(m))
	if which == 0 {
		vassert("C15.dur.lemma.seconds", int(d.Seconds()) == int(h)*3600+int(m)*60+int(s))
	}
	sink := newVSink()
	w := astikit.NewBitsWriter(astikit.BitsWriterOptions{Writer: sink})
	if which == 0 {
		n, err := writeDVBDurationSeconds(w, d)
		vassert("C15.dur.write.sec.n", err == nil && n == 3 && len(sink.buf) == 3)
		vassert("C15.dur.write.sec.h", sink.buf[0] == refBCD(h))
		vassert("C15.dur.write.sec.m", sink.buf[1] == refBCD(m))
		vassert("C15.dur.write.sec.s", sink.buf[2] == refBCD(s))
	} else {
		n, err := writeDVBDurationMinutes(w, d)
		vassert("C15.dur.write.min.n", err == nil && n == 2 && len(sink.buf) == 2)
		vassert("C15.dur.write.min.h", sink.buf[0] == refBCD(h))
		vassert("C15.dur.write.min.m", sink.buf[1] == refBCD(m))
	}
	vreach("C15.dur.write.end")
}

// HarnessC15DateParse: chunk = the top bits of the MJD (domain split for the exact floating-point query)
func HarnessC15DateParse(lo, hi, which int) {
	mjd := vnondetU16()
	vassume(mjd >= 15079 && int(mjd) >= lo && int(mjd) <= hi)
	hh, mm, ss := vnondetU8(), vnondetU8(), vnondetU8()
	vassume(hh < 24 && mm < 60 && ss < 60)
	b := []byte{byte(mjd >> 8), byte(mjd), refBCD(hh), refBCD(mm), refBCD(ss)}
	t, err := parseDVBTime(astikit.NewBytesIterator(b))
	vassert("C15.date.parse.err", err == nil)
	y, m, d := refCivilFromMJD(mjd)
	if which == 0 {
		vassert("C15.date.parse.year", t.Year() == int(y))
	}
	if which == 1 {
		vassert("C15.date.parse.month", int(t.Month()) == int(m))
	}
	if which == 2 {
		vassert("C15.date.parse.day", t.Day() == int(d))
		tod := t.Sub(t.Truncate(24 * time.Hour))
		vassert("C15.date.parse.tod", int64(tod) == (int64(hh)*3600+int64(mm)*60+int64(ss))*1000000000)
	}
	vreach("C15.date.parse.end")
}

// HarnessC15DateWrite: years [ylo, yhi]
func HarnessC15DateWrite(ylo, yhi int) {
	y, m, d := vnondetU16(), vnondetU16(), vnondetU16()
	vassume(int(y) >= ylo && int(y) <= yhi && m >= 1 && m <= 12 && d >= 1 && d <= refDaysInMonth(y, m))
	// range of the 16-bit MJD field: 1900-03-01 .. 2038-04-22
	vassume(y > 1900 || m >= 3)
	vassume(y < 2038 || m < 4 || (m == 4 && d <= 22))
	// time of day: concrete representatives here; all durations are covered by HarnessC15DurWrite, and the value
	// handed to the duration writer is t - t.Truncate(24h) (time stub: exactly the ns of day)
	var hh, mm, ss uint8
	switch vrange(0, 2) {
	case 1:
		hh, mm, ss = 23, 59, 59
	case 2:
		hh, mm, ss = 12, 34, 56
	}
	t := time.Date(int(y), time.Month(m), int(d), int(hh), int(mm), int(ss), 0, time.UTC)
	sink := newVSink()
	w := astikit.NewBitsWriter(astikit.BitsWriterOptions{Writer: sink})
	n, err := writeDVBTime(w, t)
	vassert("C15.date.write.n", err == nil && n == 5 && len(sink.buf) == 5)
	got := uint16(sink.buf[0])<<8 | uint16(sink.buf[1])
	vassert("C15.date.write.mjd", got == refMJDFromCivil(y, m, d))
	vassert("C15.date.write.tod", sink.buf[2] == refBCD(hh) && sink.buf[3] == refBCD(mm) && sink.buf[4] == refBCD(ss))
	vreach("C15.date.write.end")
}

// HarnessC15RawPanicFree: every 40-bit pattern parses without panicking
func HarnessC15RawPanicFree() {
	b := vnondetBytes(5)
	_, err := parseDVBTime(astikit.NewBytesIterator(b))
	vassert("C15.raw.err", err == nil)
	vreach("C15.raw.end")
}

// HarnessC15Through: the table and descriptor code hands the 40-bit time field and the BCD duration fields to the
// conversion kernels unchanged, for every bit pattern: EIT start_time/duration (0), TOT UTC_time (1), local time offset
// descriptor on input (2) and on output (3) equal what parseDVBTime / parseDVBDuration* / writeDVBTime /
// writeDVBDurationMinutes give for the same bytes or values (whose exactness the other C15 harnesses establish)
func c15SameTime(id string, a, b time.Time) {
	// date first; the difference is only taken between times of the same date (time stub)
	same := a.Year() == b.Year() && a.Month() == b.Month() && a.Day() == b.Day()
	vassert(id, same)
	if same {
		vassert(id, a.Sub(b) == 0)
	}
}

func HarnessC15Through(which int) {
	tb := vnondetBytes(5)
	db := vnondetBytes(3)
	switch which {
	case 0:
		sec := []byte{0x00, 0x01, 0x00, 0x02, 0x00, 0x4e, vnondetU8(), vnondetU8()}
		sec = append(append(sec, tb...), db...)
		sec = append(sec, vnondetU8()&0xf0, 0x00)
		d, err := parseEITSection(astikit.NewBytesIterator(sec), len(sec), 1)
		vassert("C15.through.eit.err", err == nil && len(d.Events) == 1)
		want, _ := parseDVBTime(astikit.NewBytesIterator(tb))
		wd, _ := parseDVBDurationSeconds(astikit.NewBytesIterator(db))
		c15SameTime("C15.through.eit.time", d.Events[0].StartTime, want)
		vassert("C15.through.eit.dur", d.Events[0].Duration == wd)
	case 1:
		sec := append(append([]byte{}, tb...), 0xf0, 0x00)
		d, err := parseTOTSection(astikit.NewBytesIterator(sec))
		vassert("C15.through.tot.err", err == nil)
		want, _ := parseDVBTime(astikit.NewBytesIterator(tb))
		c15SameTime("C15.through.tot.time", d.UTCTime, want)
	case 2:
		buf := []byte{0xf0, 15, DescriptorTagLocalTimeOffset, 13, 'F', 'R', 'A', vnondetU8(), db[0], db[1]}
		buf = append(buf, tb...)
		nb := vnondetBytes(2)
		buf = append(buf, nb...)
		ds, err := parseDescriptors(astikit.NewBytesIterator(buf))
		vassert("C15.through.lto.err", err == nil && len(ds) == 1 && ds[0].LocalTimeOffset != nil && len(ds[0].LocalTimeOffset.Items) == 1)
		it := ds[0].LocalTimeOffset.Items[0]
		want, _ := parseDVBTime(astikit.NewBytesIterator(tb))
		w1, _ := parseDVBDurationMinutes(astikit.NewBytesIterator(db[:2]))
		w2, _ := parseDVBDurationMinutes(astikit.NewBytesIterator(nb))
		c15SameTime("C15.through.lto.time", it.TimeOfChange, want)
		vassert("C15.through.lto.offsets", it.LocalTimeOffset == w1 && it.NextTimeOffset == w2)
	case 3:
		y, m, d := vnondetU16(), vnondetU16(), vnondetU16()
		vassume(y >= 1900 && y <= 2038 && m >= 1 && m <= 12 && d >= 1 && d <= refDaysInMonth(y, m))
		hh, mm, ss := vnondetU8(), vnondetU8(), vnondetU8()
		vassume(hh < 24 && mm < 60 && ss < 60)
		t := time.Date(int(y), time.Month(m), int(d), int(hh), int(mm), int(ss), 0, time.UTC)
		o1 := time.Duration(int64(vnondetU16())) * time.Minute
		o2 := time.Duration(int64(vnondetU16())) * time.Minute
		item := &DescriptorLocalTimeOffsetItem{CountryCode: []byte("FRA"), CountryRegionID: vBits8(6), LocalTimeOffsetPolarity: vrange(0, 1) == 1, LocalTimeOffset: o1, TimeOfChange: t, NextTimeOffset: o2}
		sink := newVSink()
		w := astikit.NewBitsWriter(astikit.BitsWriterOptions{Writer: sink})
		err := writeDescriptorLocalTimeOffset(w, &DescriptorLocalTimeOffset{Items: []*DescriptorLocalTimeOffsetItem{item}})
		vassert("C15.through.ltow.err", err == nil && len(sink.buf) == 13)
		ref := newVSink()
		rw := astikit.NewBitsWriter(astikit.BitsWriterOptions{Writer: ref})
		writeDVBDurationMinutes(rw, o1)
		writeDVBTime(rw, t)
		writeDVBDurationMinutes(rw, o2)
		vassert("C15.through.ltow.bytes", len(ref.buf) == 9 && vBytesEq(sink.buf[4:], ref.buf))
	}
	vreach("C15.through.end")
}
