package astits

import "errors"

// C18: failures of the underlying reader or writer are always surfaced to the caller.

// HarnessC18Read: the reader fails (with a distinguished error) at byte offset f, for every f in [0,len] from a
// representative set, after a partial read; explicit and auto-detected packet size
func HarnessC18Read(auto, kind int) {
	s := c08Stream()
	data := s.bytes()
	ref, err := drainReader(newVReader(data), 188)
	vassert("C18.ref", err == nil)
	offs := []int{0, 1, 100, 187, 188, 189, 192, 193, 194, 376, 500, len(data) - 1, len(data)}
	f := offs[vrange(0, len(offs)-1)]
	r, vr := c08Reader(kind, data, nil)
	vr.failAt = f
	size := 188
	if auto == 1 {
		size = 0
	}
	got, err := drainReader(r, size)
	if f < len(data) {
		// a failure inside the data must surface
		// (F11, fixed: a failure right after a partial read inside the auto-detection window was swallowed by the single Read)
		f11 := auto == 1 && f <= 193
		vassertK("C18.read.surfaces", "F11", f11, err != nil && errors.Is(err, errVInjected))
	} else {
		// failing exactly at the end behaves like a failing reader too: either clean end or the injected error
		vassert("C18.read.atend", err == nil || errors.Is(err, errVInjected))
	}
	if auto == 1 && kind == 1 {
		// a plain reader cannot be rewound after auto-detection: the packets consumed by it are not delivered, so
		// what is delivered is a contiguous run of the fault-free output rather than a prefix
		ok := false
		for st := 0; st+len(got) <= len(ref); st++ {
			if sameSeq(ref[st:st+len(got)], got) {
				ok = true
			}
		}
		vassert("C18.read.infix", ok)
	} else {
		vassert("C18.read.prefix", len(got) <= len(ref) && sameSeq(ref[:len(got)], got))
	}
	vreach("C18.read.end")
}

// HarnessC18Write: the writer fails on its k-th Write call (permanently or once), for every k, during WriteTables /
// WriteData / WritePacket; the call returns an error wrapping the cause and a byte count no larger than what the
// writer accepted
func HarnessC18Write(op, oneShot, plenIdx int) {
	sink := newVSink()
	m := NewMuxer(vCtx{}, sink, MuxerOptTablesRetransmitPeriod(1))
	m.AddElementaryStream(PMTElementaryStream{ElementaryPID: 0x100, StreamType: StreamTypeH264Video})
	m.SetPCRPID(0x100)
	plen := []int{170, 177, 169, 120, 168, 400}[plenIdx] // last packet needs 0, 1, 2, many, ... stuffing bytes
	d, _ := vMuxData(0x100, plenIdx%2, 1, plen)
	// op 3: WritePacket with an adaptation field carrying every optional part (PCR, OPCR, splicing point, private data,
	// extension with legal time window, piecewise rate and seamless splice), 2 stuffing bytes and a payload
	fullPacket := func() *Packet {
		mp := &mPacket{hasAF: true, hasPayload: true, pid: 0x100}
		mp.af = vModelAF(31, 7, 3, 0)
		mp.af.stuffing = 2
		mp.payload = make([]byte, 184-1-refAFLen(&mp.af))
		for i := range mp.payload {
			mp.payload[i] = byte(0x30 + i%0x40)
		}
		return modelToPacket(mp)
	}
	// count the Write calls of a fault-free run first
	calls := 0
	{
		s2 := newVSink()
		m2 := NewMuxer(vCtx{}, s2, MuxerOptTablesRetransmitPeriod(1))
		m2.AddElementaryStream(PMTElementaryStream{ElementaryPID: 0x100, StreamType: StreamTypeH264Video})
		m2.SetPCRPID(0x100)
		d2, _ := vMuxData(0x100, plenIdx%2, 1, plen)
		switch op {
		case 0:
			m2.WriteTables()
		case 1:
			m2.WriteData(d2)
		case 2:
			m2.WritePacket(&Packet{Header: PacketHeader{PID: 0x100, HasPayload: true}, Payload: d2.PES.Data[:100]})
		case 3:
			m2.WritePacket(fullPacket())
		}
		calls = s2.calls
	}
	sink.failAt = vrange(0, calls-1)
	sink.oneShot = oneShot == 1
	// the failing call accepts nothing, one byte, or up to 100 bytes (a strict prefix of a packet-sized write)
	sink.accept = vchoose(0, 1, 100)
	var n int
	var err error
	switch op {
	case 0:
		n, err = m.WriteTables()
	case 1:
		n, err = m.WriteData(d)
	case 2:
		n, err = m.WritePacket(&Packet{Header: PacketHeader{PID: 0x100, HasPayload: true}, Payload: d.PES.Data[:100]})
	case 3:
		n, err = m.WritePacket(fullPacket())
	}
	vassertK("C18.write.surfaces", "F8", true, err != nil && errors.Is(err, errVInjected))
	vassert("C18.write.count", n <= len(sink.buf))
	vreach("C18.write.end")
}
