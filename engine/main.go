package main

import (
	"flag"
	"fmt"
	"os"
	"path/filepath"
	"strconv"
	"strings"

	"golang.org/x/tools/go/packages"
	"golang.org/x/tools/go/ssa"
	"golang.org/x/tools/go/ssa/ssautil"
)

// repoDir: the tree under check. /repo unless VERIF_REPO names a scratch copy (used only to run the checks against
// seeded changes without touching /repo; evidence and replay files then go to $VERIF_REPO/.verif_out)
var repoDir = func() string {
	if d := os.Getenv("VERIF_REPO"); d != "" {
		return d
	}
	return "/repo"
}()

func scratchOut() string {
	if os.Getenv("VERIF_REPO") != "" {
		return filepath.Join(os.Getenv("VERIF_REPO"), ".verif_out")
	}
	return ""
}

func verifDir() string {
	if d := os.Getenv("VERIF_DIR"); d != "" {
		return d
	}
	exe, err := os.Executable()
	if err == nil {
		d := filepath.Dir(filepath.Dir(exe))
		if _, err := os.Stat(filepath.Join(d, "harness")); err == nil {
			return d
		}
	}
	return "/verif"
}

// harnessOverlay maps /repo/zz_verif_<name>.go -> contents of /verif/harness/<name>.go
func harnessOverlay(extra map[string][]byte) (map[string][]byte, map[string]string) {
	ov := map[string][]byte{}
	paths := map[string]string{}
	files, _ := filepath.Glob(filepath.Join(verifDir(), "harness", "*.go"))
	for _, f := range files {
		b, err := os.ReadFile(f)
		if err != nil {
			panic(err)
		}
		base := filepath.Base(f)
		if strings.HasSuffix(base, "_native.go") {
			continue // native-only bodies
		}
		virt := filepath.Join(repoDir, "zz_verif_"+base)
		ov[virt] = b
		paths[virt] = f
	}
	for k, v := range extra {
		ov[k] = v
	}
	return ov, paths
}

func loadProgram(extra map[string][]byte) (*ssa.Program, *ssa.Package, error) {
	ov, _ := harnessOverlay(extra)
	cfg := &packages.Config{Mode: packages.LoadAllSyntax, Dir: repoDir, Overlay: ov,
		Env: append(os.Environ(), "GOFLAGS=-mod=mod", "GOPROXY=off", "GOSUMDB=off", "GOTOOLCHAIN=local")}
	pkgs, err := packages.Load(cfg, ".")
	if err != nil {
		return nil, nil, err
	}
	if packages.PrintErrors(pkgs) > 0 {
		return nil, nil, fmt.Errorf("package errors")
	}
	prog, sp := ssautil.AllPackages(pkgs, ssa.InstantiateGenerics)
	prog.Build()
	return prog, sp[0], nil
}

func defaultConfig() Config {
	return Config{Solver: "z3", TimeoutMs: 60000, Merge: true, MaxDecisions: 4000, MaxConcretize: 600, MaxSteps: 200_000_000, MaxArmSteps: 200_000, Workers: 16}
}

func main() {
	if len(os.Args) < 2 {
		fmt.Fprintln(os.Stderr, "usage: gosmt run|check|selftest ...")
		os.Exit(2)
	}
	switch os.Args[1] {
	case "run":
		fs := flag.NewFlagSet("run", flag.ExitOnError)
		cfg := defaultConfig()
		fs.StringVar(&cfg.Harness, "harness", "", "harness function")
		fs.StringVar(&cfg.Solver, "solver", cfg.Solver, "z3|z3-new|cvc5|cvc5-int")
		fs.IntVar(&cfg.Workers, "workers", cfg.Workers, "workers")
		fs.IntVar(&cfg.TimeoutMs, "timeout", cfg.TimeoutMs, "per-query timeout ms")
		fs.BoolVar(&cfg.Merge, "merge", true, "diamond merging")
		fs.BoolVar(&cfg.Verbose, "v", false, "verbose")
		args := fs.String("args", "", "comma separated int args")
		fs.Parse(os.Args[2:])
		if *args != "" {
			for _, a := range strings.Split(*args, ",") {
				n, _ := strconv.ParseInt(a, 10, 64)
				cfg.Args = append(cfg.Args, n)
			}
		}
		prog, pkg, err := loadProgram(nil)
		if err != nil {
			fmt.Fprintln(os.Stderr, "load:", err)
			os.Exit(2)
		}
		res := RunTask(prog, pkg, cfg)
		fmt.Println(res.Summary())
		for _, v := range res.Violations {
			fmt.Printf("  violation %s %q vector=%v where=%s\n", v.Kind, v.ID, v.Vector, v.Where)
		}
		for i, s := range res.Inconclusive {
			if i < 10 {
				fmt.Println("  inconclusive:", s)
			}
		}
		fmt.Println("  reached:", res.Reached)
	default:
		cmdMain(os.Args[1], os.Args[2:])
	}
}
