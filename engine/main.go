package main

import (
	"flag"
	"fmt"
	"go/ast"
	"go/parser"
	"go/token"
	"os"
	"path/filepath"
	"sort"
	"strconv"
	"strings"

	"golang.org/x/tools/go/packages"
	"golang.org/x/tools/go/ssa"
	"golang.org/x/tools/go/ssa/ssautil"
)

// repoDir: the tree under check. /repo unless VERIF_REPO names a scratch copy (used only to run the checks against
// seeded changes without touching /repo; evidence and replay files then go to $VERIF_REPO/.verif_out)
var repoDir = func() string {
	if d := os.Getenv("VERIF_REPO"); d != "" {
		return d
	}
	return "/repo"
}()

func scratchOut() string {
	if os.Getenv("VERIF_REPO") != "" {
		return filepath.Join(os.Getenv("VERIF_REPO"), ".verif_out")
	}
	return ""
}

func verifDir() string {
	if d := os.Getenv("VERIF_DIR"); d != "" {
		return d
	}
	exe, err := os.Executable()
	if err == nil {
		d := filepath.Dir(filepath.Dir(exe))
		if _, err := os.Stat(filepath.Join(d, "harness")); err == nil {
			return d
		}
	}
	return "/verif"
}

// harnessOverlay maps /repo/zz_verif_<name>.go -> contents of /verif/harness/<name>.go
func harnessOverlay(extra map[string][]byte) (map[string][]byte, map[string]string) {
	ov := map[string][]byte{}
	paths := map[string]string{}
	files, _ := filepath.Glob(filepath.Join(verifDir(), "harness", "*.go"))
	for _, f := range files {
		b, err := os.ReadFile(f)
		if err != nil {
			panic(err)
		}
		base := filepath.Base(f)
		if strings.HasSuffix(base, "_native.go") {
			continue // native-only bodies
		}
		virt := filepath.Join(repoDir, "zz_verif_"+base)
		ov[virt] = b
		paths[virt] = f
	}
	for k, v := range extra {
		ov[k] = v
	}
	return ov, paths
}

// harnessRewrites: harness files from which declarations were removed because they do not compile against the tree
// under check (virtual path -> rewritten source); droppedDecls: name of each removed declaration -> the compiler's message
var harnessRewrites = map[string][]byte{}
var droppedDecls = map[string]string{}

// loadProgram type-checks /repo with the harness overlay. A change to /repo may alter an internal signature that some
// harness uses; instead of failing every check, the declarations that no longer compile (and, in further rounds, the
// declarations that depended on them) are removed from the overlay. Tasks whose harness is gone end INCONCLUSIVE with
// the compiler's message; everything else runs normally.
func loadProgram(extra map[string][]byte) (*ssa.Program, *ssa.Package, error) {
	ov, _ := harnessOverlay(extra)
	for round := 0; round < 12; round++ {
		cfg := &packages.Config{Mode: packages.LoadAllSyntax, Dir: repoDir, Overlay: ov,
			Env: append(os.Environ(), "GOFLAGS=-mod=mod", "GOPROXY=off", "GOSUMDB=off", "GOTOOLCHAIN=local")}
		pkgs, err := packages.Load(cfg, ".")
		if err != nil {
			return nil, nil, err
		}
		var errs []packages.Error
		packages.Visit(pkgs, nil, func(p *packages.Package) { errs = append(errs, p.Errors...) })
		if len(errs) == 0 {
			prog, sp := ssautil.AllPackages(pkgs, ssa.InstantiateGenerics)
			prog.Build()
			return prog, sp[0], nil
		}
		changed := false
		byFile := map[string][]packages.Error{}
		for _, e := range errs {
			file, _ := splitPos(e.Pos)
			if _, ok := ov[file]; !ok || !strings.Contains(filepath.Base(file), "zz_verif_") {
				packages.PrintErrors(pkgs)
				return nil, nil, fmt.Errorf("package errors outside the harness overlay (%s: %s)", e.Pos, e.Msg)
			}
			byFile[file] = append(byFile[file], e)
		}
		for file, es := range byFile {
			src, n := removeDecls(file, ov[file], es)
			if n > 0 {
				ov[file] = src
				harnessRewrites[file] = src
				changed = true
			}
		}
		if !changed {
			packages.PrintErrors(pkgs)
			return nil, nil, fmt.Errorf("package errors in the harness overlay that could not be isolated")
		}
	}
	return nil, nil, fmt.Errorf("harness overlay still does not compile after 12 rounds of isolation")
}

func splitPos(pos string) (string, int) {
	// file:line:col
	parts := strings.Split(pos, ":")
	if len(parts) < 2 {
		return pos, 0
	}
	line, _ := strconv.Atoi(parts[1])
	return parts[0], line
}

// removeDecls cuts the top-level declarations that contain the error positions out of a harness file; unused imports
// reported by the compiler are blanked (import _ "x")
func removeDecls(file string, src []byte, es []packages.Error) ([]byte, int) {
	fset := token.NewFileSet()
	f, err := parser.ParseFile(fset, file, src, parser.ParseComments)
	if err != nil {
		return src, 0
	}
	type cut struct{ from, to int }
	var cuts []cut
	n := 0
	for _, e := range es {
		_, line := splitPos(e.Pos)
		for _, d := range f.Decls {
			from, to := fset.Position(d.Pos()), fset.Position(d.End())
			if line < from.Line || line > to.Line {
				continue
			}
			if gd, ok := d.(*ast.GenDecl); ok && gd.Tok == token.IMPORT {
				// unused import: blank the offending spec
				for _, sp := range gd.Specs {
					is := sp.(*ast.ImportSpec)
					if fset.Position(is.Pos()).Line == line && is.Name == nil {
						cuts = append(cuts, cut{fset.Position(is.Path.Pos()).Offset, fset.Position(is.Path.Pos()).Offset})
						n++
					}
				}
				continue
			}
			name := "?"
			switch x := d.(type) {
			case *ast.FuncDecl:
				name = x.Name.Name
			case *ast.GenDecl:
				if len(x.Specs) > 0 {
					switch sp := x.Specs[0].(type) {
					case *ast.ValueSpec:
						name = sp.Names[0].Name
					case *ast.TypeSpec:
						name = sp.Name.Name
					}
				}
			}
			if _, done := droppedDecls[name]; !done {
				droppedDecls[name] = e.Msg
			}
			cuts = append(cuts, cut{from.Offset, to.Offset})
			n++
		}
	}
	if n == 0 {
		return src, 0
	}
	sort.Slice(cuts, func(i, j int) bool { return cuts[i].from > cuts[j].from })
	out := append([]byte{}, src...)
	last := len(out) + 1
	for _, c := range cuts {
		if c.from >= last {
			continue // overlapping / duplicate
		}
		if c.from == c.to {
			out = append(out[:c.from], append([]byte("_ "), out[c.from:]...)...)
		} else {
			// keep the line structure so that later error positions stay meaningful
			repl := []byte{}
			for _, b := range out[c.from:c.to] {
				if b == '\n' {
					repl = append(repl, '\n')
				}
			}
			out = append(out[:c.from], append(repl, out[c.to:]...)...)
		}
		last = c.from
	}
	return out, n
}

func defaultConfig() Config {
	return Config{Solver: "z3", TimeoutMs: 60000, Merge: true, MaxDecisions: 4000, MaxConcretize: 600, MaxSteps: 200_000_000, MaxArmSteps: 200_000, Workers: 16}
}

func main() {
	if len(os.Args) < 2 {
		fmt.Fprintln(os.Stderr, "usage: gosmt run|check|selftest ...")
		os.Exit(2)
	}
	switch os.Args[1] {
	case "run":
		fs := flag.NewFlagSet("run", flag.ExitOnError)
		cfg := defaultConfig()
		fs.StringVar(&cfg.Harness, "harness", "", "harness function")
		fs.StringVar(&cfg.Solver, "solver", cfg.Solver, "z3|z3-new|cvc5|cvc5-int")
		fs.IntVar(&cfg.Workers, "workers", cfg.Workers, "workers")
		fs.IntVar(&cfg.TimeoutMs, "timeout", cfg.TimeoutMs, "per-query timeout ms")
		fs.BoolVar(&cfg.Merge, "merge", true, "diamond merging")
		fs.BoolVar(&cfg.Verbose, "v", false, "verbose")
		args := fs.String("args", "", "comma separated int args")
		fs.Parse(os.Args[2:])
		if *args != "" {
			for _, a := range strings.Split(*args, ",") {
				n, _ := strconv.ParseInt(a, 10, 64)
				cfg.Args = append(cfg.Args, n)
			}
		}
		prog, pkg, err := loadProgram(nil)
		if err != nil {
			fmt.Fprintln(os.Stderr, "load:", err)
			os.Exit(2)
		}
		res := RunTask(prog, pkg, cfg)
		fmt.Println(res.Summary())
		for _, v := range res.Violations {
			fmt.Printf("  violation %s %q vector=%v where=%s\n", v.Kind, v.ID, v.Vector, v.Where)
		}
		for i, s := range res.Inconclusive {
			if i < 10 {
				fmt.Println("  inconclusive:", s)
			}
		}
		fmt.Println("  reached:", res.Reached)
	default:
		cmdMain(os.Args[1], os.Args[2:])
	}
}
