package main

// Incremental SMT solver processes (z3 -in, z3-new -in, cvc5 --incremental).
// Definitions are global (survive pop); the asserted path condition is kept in sync by
// popping to the common prefix and pushing the rest.

import (
	"bufio"
	"fmt"
	"io"
	"os"
	"os/exec"
	"strconv"
	"strings"
	"syscall"
	"time"
)

type Result int

const (
	Unsat Result = iota
	Sat
	Unknown
)

func (r Result) String() string { return [...]string{"unsat", "sat", "unknown"}[r] }

type SolverStats struct {
	Queries   int
	Sat       int
	Unsat     int
	Unknown   int
	Errors    int
	Time      time.Duration
	Restarts  int
	MaxQuery  time.Duration
	DefsBytes int64
}

type Solver struct {
	kind         string // z3 | z3-new | cvc5 | cvc5-int
	timeoutMs    int
	cmd          *exec.Cmd
	in           *bufio.Writer
	inRaw        io.WriteCloser
	out          *bufio.Reader
	lines        chan string
	defined      map[int32]bool
	ndefs        int
	stack        []*Term
	Stats        SolverStats
	log          io.Writer // optional transcript
	tt           *TermTable
	hung         bool
	effTO        int
	bytesAtStart int64
	curTO        int // timeout currently set in the solver process
	nextTO       int // timeout to use for the next Check (0 = default)
}

func NewSolver(kind string, timeoutMs int, tt *TermTable) *Solver {
	s := &Solver{kind: kind, timeoutMs: timeoutMs, tt: tt}
	return s
}

func (s *Solver) start() {
	var cmd *exec.Cmd
	switch s.kind {
	case "z3":
		cmd = exec.Command("/usr/bin/z3", "-in")
	case "z3-new":
		cmd = exec.Command("z3-new", "-in")
	case "cvc5":
		cmd = exec.Command("cvc5", "--incremental", "--produce-models", "--lang=smt2", fmt.Sprintf("--tlimit-per=%d", s.timeoutMs))
	case "cvc5-int":
		cmd = exec.Command("cvc5", "--incremental", "--produce-models", "--lang=smt2", "--solve-bv-as-int=sum", fmt.Sprintf("--tlimit-per=%d", s.timeoutMs))
	default:
		panic("unknown solver kind " + s.kind)
	}
	in, err := cmd.StdinPipe()
	if err != nil {
		panic(err)
	}
	out, err := cmd.StdoutPipe()
	if err != nil {
		panic(err)
	}
	cmd.Stderr = cmd.Stdout
	cmd.SysProcAttr = &syscall.SysProcAttr{Pdeathsig: syscall.SIGKILL}
	if err := cmd.Start(); err != nil {
		panic(err)
	}
	s.cmd = cmd
	s.inRaw = in
	s.in = bufio.NewWriterSize(in, 1<<16)
	s.out = bufio.NewReaderSize(out, 1<<16)
	lines := make(chan string, 1024)
	s.lines = lines
	go func(r *bufio.Reader, ch chan string) {
		for {
			line, err := r.ReadString('\n')
			if line != "" {
				ch <- line
			}
			if err != nil {
				close(ch)
				return
			}
		}
	}(s.out, lines)
	if d := os.Getenv("VERIF_SMT_LOG"); d != "" && s.log == nil {
		f, _ := os.CreateTemp(d, "smt-*.smt2")
		s.log = f
	}
	s.defined = map[int32]bool{}
	s.ndefs = 0
	s.stack = nil
	s.curTO = s.timeoutMs
	s.bytesAtStart = s.Stats.DefsBytes
	s.send("(set-option :global-declarations true)")
	if strings.HasPrefix(s.kind, "z3") {
		s.send("(set-option :produce-models true)")
		s.send(fmt.Sprintf("(set-option :timeout %d)", s.timeoutMs))
	} else {
		s.send("(set-logic ALL)")
	}
}

func (s *Solver) Close() {
	if s.cmd != nil {
		s.inRaw.Close()
		s.cmd.Process.Kill()
		s.cmd.Wait()
		s.cmd = nil
	}
}

func (s *Solver) restart() {
	s.Close()
	s.Stats.Restarts++
	s.start()
}

func (s *Solver) send(line string) {
	if s.log != nil {
		fmt.Fprintln(s.log, line)
	}
	s.in.WriteString(line)
	s.in.WriteByte('\n')
	s.Stats.DefsBytes += int64(len(line))
}

// define makes sure t can be referenced by ref(t)
// letTerm prints t as one SMT-LIB term with nested parallel lets (one let per DAG height level), declaring the
// variables it meets. No define-fun macros are used: z3 4.8.12 expands nested macros at parse time without
// sharing, which is exponential on deep DAGs (a checksum over a dozen symbolic bytes never finished parsing).
func (s *Solver) letTerm(t *Term) string {
	if t.op == OConst {
		return constStr(t)
	}
	// collect nodes, compute heights
	height := map[int32]int{}
	var order []*Term
	type fr struct {
		t *Term
		i int
	}
	st := []fr{{t, 0}}
	for len(st) > 0 {
		f := &st[len(st)-1]
		if _, done := height[f.t.id]; done || f.t.op == OConst {
			st = st[:len(st)-1]
			continue
		}
		if f.i < int(f.t.na) {
			c := f.t.args[f.i]
			f.i++
			if _, done := height[c.id]; !done && c.op != OConst {
				st = append(st, fr{c, 0})
			}
			continue
		}
		h := 0
		for k := 0; k < int(f.t.na); k++ {
			if a := f.t.args[k]; a.op != OConst {
				if ha := height[a.id] + 1; ha > h {
					h = ha
				}
			}
		}
		if f.t.op == OVar {
			h = 0
			if !s.defined[f.t.id] {
				s.send(fmt.Sprintf("(declare-const %s %s)", f.t.name, sortStr(f.t)))
				s.defined[f.t.id] = true
				s.ndefs++
			}
		}
		height[f.t.id] = h
		order = append(order, f.t)
		st = st[:len(st)-1]
	}
	if t.op == OVar {
		return t.name
	}
	maxH := height[t.id]
	levels := make([][]*Term, maxH+1)
	for _, n := range order {
		if n.op == OVar {
			continue
		}
		levels[height[n.id]] = append(levels[height[n.id]], n)
	}
	var sb strings.Builder
	depth := 0
	for h := 1; h <= maxH; h++ {
		if len(levels[h]) == 0 {
			continue
		}
		if h == maxH && len(levels[h]) == 1 && levels[h][0] == t {
			break
		}
		sb.WriteString("(let (")
		for _, n := range levels[h] {
			fmt.Fprintf(&sb, "(t%d %s)", n.id, body(n))
		}
		sb.WriteString(") ")
		depth++
	}
	sb.WriteString(body(t))
	for i := 0; i < depth; i++ {
		sb.WriteByte(')')
	}
	return sb.String()
}

func (s *Solver) sync(pc []*Term) {
	k := 0
	for k < len(pc) && k < len(s.stack) && pc[k] == s.stack[k] {
		k++
	}
	if n := len(s.stack) - k; n > 0 {
		s.send(fmt.Sprintf("(pop %d)", n))
		s.stack = s.stack[:k]
	}
	for ; k < len(pc); k++ {
		txt := s.letTerm(pc[k])
		s.send("(push 1)")
		s.send("(assert " + txt + ")")
		s.stack = append(s.stack, pc[k])
	}
}

// readLine waits for one output line; ok=false on EOF or when the watchdog deadline passes
func (s *Solver) readLine(deadline time.Time) (string, bool) {
	d := time.Until(deadline)
	if d < 0 {
		d = 0
	}
	select {
	case line, ok := <-s.lines:
		return line, ok
	case <-time.After(d):
		return "", false
	}
}

// readResult reads lines until a check-sat answer
func (s *Solver) readResult() (Result, bool) {
	sawErr := false
	// watchdog: some z3 builds ignore :timeout inside preprocessing
	to := s.effTO
	if to == 0 {
		to = s.timeoutMs
	}
	deadline := time.Now().Add(time.Duration(to)*time.Millisecond*3/2 + 3*time.Second)
	for {
		line, ok := s.readLine(deadline)
		if !ok {
			s.hung = true
			return Unknown, false
		}
		line = strings.TrimSpace(line)
		switch {
		case line == "sat":
			return Sat, sawErr
		case line == "unsat":
			return Unsat, sawErr
		case line == "unknown" || line == "timeout":
			return Unknown, sawErr
		case strings.HasPrefix(line, "(error"):
			sawErr = true
			if s.log != nil {
				fmt.Fprintln(s.log, "; ERR "+line)
			}
			if strings.Contains(line, "interrupted") || strings.Contains(line, "timeout") {
				// cvc5 reports timeouts as errors in some builds
			}
		case line == "":
		default:
			if strings.Contains(line, "rror") {
				sawErr = true
			}
		}
	}
}

func (s *Solver) readSexp() string {
	var sb strings.Builder
	depth := 0
	started := false
	deadline := time.Now().Add(30 * time.Second)
	for {
		line, ok := s.readLine(deadline)
		if !ok {
			s.hung = true
			return sb.String()
		}
		sb.WriteString(line)
		for _, c := range line {
			if c == '(' {
				depth++
				started = true
			} else if c == ')' {
				depth--
			}
		}
		if started && depth <= 0 {
			return sb.String()
		}
	}
}

// Check decides pc ∧ extra. With wantModel a satisfying assignment of all declared variables is returned.
func (s *Solver) Check(pc []*Term, extra *Term, wantModel bool) (Result, Model) {
	if s.cmd == nil {
		s.start()
	}
	if s.Stats.DefsBytes-s.bytesAtStart > 400<<20 {
		s.restart()
	}
	t0 := time.Now()
	s.sync(pc)
	if extra != nil {
		txt := s.letTerm(extra)
		s.send("(push 1)")
		s.send("(assert " + txt + ")")
	}
	to := s.timeoutMs
	if s.nextTO > 0 {
		to = s.nextTO
	}
	s.nextTO = 0
	if strings.HasPrefix(s.kind, "z3") && to != s.curTO {
		s.send(fmt.Sprintf("(set-option :timeout %d)", to))
		s.curTO = to
	}
	s.effTO = to
	s.send("(check-sat)")
	s.in.Flush()
	res, sawErr := s.readResult()
	var model Model
	if sawErr {
		s.Stats.Errors++
		res = Unknown
	}
	if res == Sat && wantModel {
		var names []string
		byName := map[string]*Term{}
		for _, v := range s.tt.vars {
			if s.defined[v.id] {
				names = append(names, v.name)
				byName[v.name] = v
			}
		}
		model = Model{}
		if len(names) > 0 {
			s.send("(get-value (" + strings.Join(names, " ") + "))")
			s.in.Flush()
			txt := s.readSexp()
			parseModel(txt, byName, model)
		}
	}
	if s.hung {
		s.hung = false
		res = Unknown
		model = nil
		s.restart()
		s.Stats.Restarts--
	} else if extra != nil {
		s.send("(pop 1)")
	}
	d := time.Since(t0)
	s.Stats.Queries++
	s.Stats.Time += d
	if d > s.Stats.MaxQuery {
		s.Stats.MaxQuery = d
	}
	switch res {
	case Sat:
		s.Stats.Sat++
	case Unsat:
		s.Stats.Unsat++
	default:
		s.Stats.Unknown++
		// a timed-out solver may be left in a bad state; start clean
		s.restart()
	}
	return res, model
}

func parseModel(txt string, byName map[string]*Term, m Model) {
	// tokens: ( ( name value ) ( name value ) ... ) where value may be #x.., #b.., true, false, (_ bvN w)
	toks := tokenize(txt)
	for i := 0; i+1 < len(toks); i++ {
		v, ok := byName[toks[i]]
		if !ok {
			continue
		}
		val := toks[i+1]
		switch {
		case val == "true":
			m[v.name] = 1
		case val == "false":
			m[v.name] = 0
		case strings.HasPrefix(val, "#x"):
			u, _ := strconv.ParseUint(val[2:], 16, 64)
			m[v.name] = u
		case strings.HasPrefix(val, "#b"):
			u, _ := strconv.ParseUint(val[2:], 2, 64)
			m[v.name] = u
		case val == "(" && i+3 < len(toks) && toks[i+2] == "_" && strings.HasPrefix(toks[i+3], "bv"):
			u, _ := strconv.ParseUint(toks[i+3][2:], 10, 64)
			m[v.name] = u
		}
	}
}

func tokenize(s string) []string {
	var toks []string
	cur := strings.Builder{}
	flush := func() {
		if cur.Len() > 0 {
			toks = append(toks, cur.String())
			cur.Reset()
		}
	}
	for _, c := range s {
		switch c {
		case '(', ')':
			flush()
			toks = append(toks, string(c))
		case ' ', '\n', '\t', '\r':
			flush()
		default:
			cur.WriteRune(c)
		}
	}
	flush()
	return toks
}
