package main

import (
	"encoding/json"
	"flag"
	"fmt"
	"os"
	"path/filepath"
	"sort"
	"strconv"
	"strings"
	"sync"
	"sync/atomic"
	"time"

	"golang.org/x/tools/go/ssa"
)

type TaskSpec struct {
	Harness   string
	ArgSets   [][]int64
	Solver    string
	TimeoutMs int
	NoMerge   bool
	MaxPaths  int64
	Reach     []string // reach ids that must be witnessed by at least one feasible path (across arg sets)
	Workers   int
	Asserts   []string // assertion-id prefixes this property selects from a shared harness (nil: all)
}

type PropSpec struct {
	ID          string
	Quick       []TaskSpec
	Thorough    []TaskSpec
	Assumptions []string
	Bounds      map[string]string // tier -> text
	Outside     string
}

type KnownFinding struct {
	Properties []string `json:"properties"`
	ID         string   `json:"id"`
	Status     string   `json:"status"` // open | fixed
	What       string   `json:"what"`
	Commit     string   `json:"commit,omitempty"`
}

func loadKnown() []KnownFinding {
	kp := filepath.Join(verifDir(), "known_findings.json")
	if so := scratchOut(); so != "" && os.Getenv("VERIF_KNOWN") != "" {
		// scratch runs only (VERIF_REPO set): try a candidate repair against a findings file in which it is marked fixed
		kp = os.Getenv("VERIF_KNOWN")
	}
	b, err := os.ReadFile(kp)
	if err != nil {
		return nil
	}
	var k struct {
		Findings []KnownFinding `json:"findings"`
	}
	if err := json.Unmarshal(b, &k); err != nil {
		fmt.Fprintln(os.Stderr, "known_findings.json:", err)
		os.Exit(2)
	}
	return k.Findings
}

func cross(ranges ...[]int64) [][]int64 {
	res := [][]int64{{}}
	for _, r := range ranges {
		var nr [][]int64
		for _, p := range res {
			for _, v := range r {
				nr = append(nr, append(append([]int64{}, p...), v))
			}
		}
		res = nr
	}
	return res
}

func seq(lo, hi int64) []int64 {
	var r []int64
	for i := lo; i <= hi; i++ {
		r = append(r, i)
	}
	return r
}

func ints(v ...int64) []int64 { return v }

type taskRun struct {
	spec    TaskSpec
	args    []int64
	res     *TaskResult
	skipped bool
}

func cmdMain(cmd string, args []string) {
	switch cmd {
	case "check":
		fs := flag.NewFlagSet("check", flag.ExitOnError)
		prop := fs.String("property", "", "property id")
		tier := fs.String("tier", "", "quick|thorough")
		only := fs.String("only", "", "restrict to harnesses containing this substring")
		verbose := fs.Bool("v", false, "verbose")
		fs.Parse(args)
		if *tier == "" {
			*tier = os.Getenv("VERIF_TIER")
		}
		if *tier == "" {
			*tier = "quick"
		}
		os.Exit(runCheck(*prop, *tier, *only, *verbose))
	case "replay":
		if len(args) < 1 {
			fmt.Fprintln(os.Stderr, "usage: gosmt replay <file>")
			os.Exit(2)
		}
		os.Exit(replayFile(args[0]))
	case "list":
		for _, id := range propIDs() {
			fmt.Println(id)
		}
	default:
		fmt.Fprintln(os.Stderr, "unknown command", cmd)
		os.Exit(2)
	}
}

func propIDs() []string {
	var ids []string
	for id := range propTable() {
		ids = append(ids, id)
	}
	sort.Strings(ids)
	return ids
}

func runCheck(prop, tier, only string, verbose bool) int {
	t0 := time.Now()
	spec, ok := propTable()[prop]
	if !ok {
		fmt.Fprintln(os.Stderr, "unknown property", prop)
		return 2
	}
	seed := int64(0)
	if s := os.Getenv("VERIF_SEED"); s != "" {
		seed, _ = strconv.ParseInt(s, 10, 64)
	}
	checkDeadline = t0.Add(30 * time.Minute)
	if tier == "thorough" {
		checkDeadline = t0.Add(6 * time.Hour)
	}
	specs := spec.Quick
	if tier == "thorough" && spec.Thorough != nil {
		specs = spec.Thorough
	}
	known := loadKnown()
	openKnown := map[string]bool{}
	var openList []string
	for _, k := range known {
		if k.Status == "open" {
			openKnown[k.ID] = true
			openList = append(openList, k.ID)
		}
	}
	sort.Strings(openList)

	prog, pkg, err := loadProgram(nil)
	if err != nil {
		fmt.Println("INCONCLUSIVE: cannot load /repo with harness overlay:", err)
		return 2
	}
	if os.Getenv("VERIF_ALL_ASSERTS") != "" && scratchOut() != "" {
		// development only (scratch runs): count the assertions of every property in the shared harnesses, so that one
		// exploration of the Muxer tasks answers for C01, C04, C05 and C17 at once
		cp := append([]TaskSpec{}, specs...)
		for i := range cp {
			cp[i].Asserts = nil
		}
		specs = cp
	}
	// tasks
	var runs []*taskRun
	var notCompiled []string
	for _, s := range specs {
		if only != "" && !strings.Contains(s.Harness, only) {
			continue
		}
		if pkg.Func(s.Harness) == nil {
			if msg, ok := droppedDecls[s.Harness]; ok {
				// the harness (or something it uses) does not compile against this tree: the other tasks still run
				notCompiled = append(notCompiled, fmt.Sprintf("%s does not compile against this tree (%s)", s.Harness, msg))
				continue
			}
			if len(droppedDecls) > 0 {
				notCompiled = append(notCompiled, fmt.Sprintf("%s was removed with a declaration it depends on (%v)", s.Harness, droppedNames()))
				continue
			}
			fmt.Println("INCONCLUSIVE: harness not found:", s.Harness)
			return 2
		}
		if len(s.ArgSets) == 0 {
			runs = append(runs, &taskRun{spec: s})
		} else {
			for _, a := range s.ArgSets {
				runs = append(runs, &taskRun{spec: s, args: a})
			}
		}
	}
	runTasks(prog, pkg, runs, openKnown, verbose)

	// aggregate
	agg := &TaskResult{EndKinds: map[string]int64{}, Reached: map[string]int64{}, Funcs: map[string]int64{}}
	var allV []Violation
	var inconclusive []string
	inconclusive = append(inconclusive, notCompiled...)
	var witnesses []Violation
	harnesses := map[string]bool{}
	for _, r := range runs {
		res := r.res
		harnesses[res.Harness] = true
		if verbose {
			fmt.Fprintln(os.Stderr, res.Summary())
		}
		agg.Paths += res.Paths
		agg.Steps += res.Steps
		agg.Asserts += res.Asserts
		agg.NonTrivial += res.NonTrivial
		agg.Folded += res.Folded
		agg.Fallbacks += res.Fallbacks
		agg.Diversified += res.Diversified
		agg.Unknowns += res.Unknowns
		agg.Merges += res.Merges
		agg.MergeFails += res.MergeFails
		agg.Solver.Queries += res.Solver.Queries
		agg.Solver.Sat += res.Solver.Sat
		agg.Solver.Unsat += res.Solver.Unsat
		agg.Solver.Unknown += res.Solver.Unknown
		agg.Solver.Errors += res.Solver.Errors
		agg.Solver.Time += res.Solver.Time
		if res.Solver.MaxQuery > agg.Solver.MaxQuery {
			agg.Solver.MaxQuery = res.Solver.MaxQuery
		}
		for k, v := range res.EndKinds {
			agg.EndKinds[k] += v
		}
		for k, v := range res.Reached {
			agg.Reached[k] += v
		}
		for k, v := range res.Funcs {
			agg.Funcs[k] += v
		}
		for _, v := range res.Violations {
			if len(r.spec.Asserts) > 0 && v.Kind == "assert" && !hasPrefixAny(v.ID, r.spec.Asserts) {
				continue
			}
			allV = append(allV, v)
		}
		for _, s := range res.Inconclusive {
			inconclusive = append(inconclusive, fmt.Sprintf("%s%v: %s", res.Harness, res.Args, s))
		}
		if len(agg.Samples) < 8 {
			agg.Samples = append(agg.Samples, res.Samples...)
		}
		witnesses = append(witnesses, res.Witnesses...)
	}
	// vacuity: required reach ids
	var missing []string
	for _, s := range specs {
		if only != "" && !strings.Contains(s.Harness, only) {
			continue
		}
		for _, id := range s.Reach {
			if agg.Reached[id] == 0 {
				missing = append(missing, id)
			}
		}
	}
	for _, r := range runs {
		if r.skipped {
			continue
		}
		if len(r.res.Reached) == 0 && r.res.EndKinds["ok"] == 0 && len(r.res.Violations) == 0 && len(r.res.Inconclusive) == 0 {
			missing = append(missing, fmt.Sprintf("%s%v: no feasible path reached the end", r.res.Harness, r.res.Args))
		}
	}

	// replay: counterexamples (dedupe per assertion id, first 2) and witnesses
	byID := map[string][]Violation{}
	var order []string
	for _, v := range allV {
		k := v.Kind + ":" + v.ID + ":" + v.Known
		if v.Kind == "panic" {
			k = v.Kind + ":" + v.Harness
		}
		if len(byID[k]) == 0 {
			order = append(order, k)
		}
		byID[k] = append(byID[k], v)
	}
	sort.Strings(order)
	var cases []*ReplayCase
	n := 0
	for _, k := range order {
		for i, v := range byID[k] {
			if i >= 2 {
				break
			}
			cases = append(cases, &ReplayCase{V: v, Name: fmt.Sprintf("%s_%d", prop, n)})
			n++
		}
	}
	var wcases []*ReplayCase
	if len(witnesses) > 24 {
		// deterministic subsample by seed
		step := len(witnesses) / 24
		var w2 []Violation
		for i := int(seed) % step; i < len(witnesses); i += step {
			w2 = append(w2, witnesses[i])
		}
		witnesses = w2
	}
	for i, v := range witnesses {
		wcases = append(wcases, &ReplayCase{V: v, Name: fmt.Sprintf("%s_w%d", prop, i)})
	}
	all := append(append([]*ReplayCase{}, cases...), wcases...)
	if err := runReplays(all, nil, nil); err != nil {
		inconclusive = append(inconclusive, "replay failed: "+err.Error())
	}
	validated := 0
	for _, c := range wcases {
		if c.Outcome == "<nil>" {
			validated++
			os.Remove(c.Path)
		} else {
			inconclusive = append(inconclusive, fmt.Sprintf("engine/native divergence on a witness of %s%v: native run says %q (vector %v)", c.V.Harness, c.V.Args, c.Outcome, c.V.Vector))
		}
	}

	// classify counterexamples
	violations := 0
	knownHit := map[string]bool{}
	var lines []string
	for _, c := range cases {
		if !c.Reproduced {
			inconclusive = append(inconclusive, fmt.Sprintf("counterexample for %s %q in %s%v did not reproduce natively (%s): engine or stub discrepancy", c.V.Kind, c.V.ID, c.V.Harness, c.V.Args, c.Outcome))
			continue
		}
		validated++
		if kf := matchKnown(known, prop, c.V); kf != nil {
			if !knownHit[kf.ID] {
				knownHit[kf.ID] = true
				lines = append(lines, fmt.Sprintf("KNOWN-FINDING: property=%s %s [%s; reproduced by %s]", prop, kf.What, kf.ID, c.Path))
			}
			continue
		}
		violations++
		lines = append(lines, fmt.Sprintf("VIOLATION property=%s replay=%s", prop, c.Path))
		fmt.Printf("  counterexample: %s %q harness %s%v vector=%v native=%q\n", c.V.Kind, c.V.ID, c.V.Harness, c.V.Args, c.V.Vector, c.Outcome)
	}
	for _, l := range lines {
		fmt.Println(l)
	}
	for _, m := range missing {
		inconclusive = append(inconclusive, "vacuity: reach witness not hit: "+m)
	}
	if agg.Solver.Errors > 0 {
		inconclusive = append(inconclusive, fmt.Sprintf("%d solver error lines", agg.Solver.Errors))
	}

	wall := time.Since(t0)
	writeEvidence(prop, tier, seed, spec, agg, harnesses, runs, violations, validated, inconclusive, wall, knownHit)

	fmt.Printf("%s %s: %d tasks, %d paths, %d SSA instructions, %d obligations (%d non-trivial queries, %d folded), queries sat/unsat/unknown=%d/%d/%d, solver %.1fs, wall %.1fs, native-validated vectors=%d\n",
		prop, tier, len(runs), agg.Paths, agg.Steps, agg.Asserts, agg.NonTrivial, agg.Folded, agg.Solver.Sat, agg.Solver.Unsat, agg.Solver.Unknown, agg.Solver.Time.Seconds(), wall.Seconds(), validated)
	if violations > 0 {
		return 1
	}
	if len(inconclusive) > 0 {
		for i, s := range inconclusive {
			if i < 20 {
				fmt.Println("INCONCLUSIVE:", s)
			}
		}
		return 2
	}
	fmt.Printf("OK property=%s held on everything explored\n", prop)
	return 0
}

var globalAssumptions = []string{
	"the SSA->SMT translator in /verif/engine is faithful to Go semantics for the instruction kinds it executes (validated per run by replaying one solver-chosen input per harness natively and by replaying every counterexample)",
	"solver verdicts of z3 4.8.12 / cvc5 1.0 are trusted; unknown, timeout and (error lines are reported as inconclusive, never as success",
	"stubs: fmt.Errorf builds no message and only records the %w operand; errors.Is walks Unwrap chains by identity; sync.Pool is a LIFO free list; bytes.Buffer is modelled on its buf/off fields; maps iterate in insertion order; time.Time is the tuple (Y,M,D,ns-of-day,UTC) without normalisation",
	"package initialisers of astits/astikit/io are executed from current source on every path; other std initialisers are not run",
}

func hasPrefixAny(s string, ps []string) bool {
	for _, p := range ps {
		if strings.HasPrefix(s, p) {
			return true
		}
	}
	return false
}

func matchKnown(known []KnownFinding, prop string, v Violation) *KnownFinding {
	if v.Known == "" {
		return nil
	}
	for i := range known {
		k := &known[i]
		if k.Status == "open" && k.ID == v.Known {
			return k
		}
	}
	return nil
}

func runTasks(prog *ssa.Program, pkg *ssa.Package, runs []*taskRun, openKnown map[string]bool, verbose bool) {
	total := 16
	conc := len(runs)
	if conc > total {
		conc = total
	}
	if conc < 1 {
		conc = 1
	}
	per := total / conc
	sem := make(chan struct{}, conc)
	var wg sync.WaitGroup
	var stopFlag int32
	var broken int32
	for _, r := range runs {
		wg.Add(1)
		sem <- struct{}{}
		go func(r *taskRun) {
			defer wg.Done()
			defer func() { <-sem }()
			if atomic.LoadInt32(&stopFlag) != 0 {
				// enough tasks have already shown new violations: the verdict is fixed, skip the rest
				r.res = &TaskResult{Harness: r.spec.Harness, Args: r.args, EndKinds: map[string]int64{"skipped": 1}, Reached: map[string]int64{}, Funcs: map[string]int64{}}
				r.skipped = true
				return
			}
			cfg := defaultConfig()
			cfg.Asserts = r.spec.Asserts
			cfg.StopFlag = &stopFlag
			cfg.Deadline = checkDeadline
			cfg.ViolAt = &firstViolationAt
			cfg.Harness = r.spec.Harness
			cfg.Args = r.args
			cfg.KnownOpen = openKnown
			if r.spec.Solver != "" {
				cfg.Solver = r.spec.Solver
			} else if alt := os.Getenv("VERIF_SOLVER"); alt != "" {
				// cross-check of the encoding with another back end (DESIGN.md §1.4); tasks that name a solver keep it
				cfg.Solver = alt
			}
			if r.spec.TimeoutMs > 0 {
				cfg.TimeoutMs = r.spec.TimeoutMs
			}
			cfg.Merge = !r.spec.NoMerge
			cfg.MaxPaths = r.spec.MaxPaths
			cfg.Workers = 16
			_ = per
			if r.spec.Workers > 0 {
				cfg.Workers = r.spec.Workers
			}
			cfg.Verbose = false
			r.res = RunTask(prog, pkg, cfg)
			for _, v := range r.res.Violations {
				if v.Known == "" && (v.Kind != "assert" || len(r.spec.Asserts) == 0 || hasPrefixAny(v.ID, r.spec.Asserts)) {
					if atomic.AddInt32(&broken, 1) >= 12 {
						atomic.StoreInt32(&stopFlag, 1)
					}
					break
				}
			}
			if verbose {
				fmt.Fprintln(os.Stderr, "done:", r.res.Summary())
			}
		}(r)
	}
	wg.Wait()
}

func writeEvidence(prop, tier string, seed int64, spec PropSpec, agg *TaskResult, harnesses map[string]bool, runs []*taskRun, violations, validated int, inconclusive []string, wall time.Duration, knownHit map[string]bool) {
	var fns []string
	for f := range agg.Funcs {
		if strings.Contains(f, "go-astits") || strings.Contains(f, "go-astikit") {
			if !strings.Contains(f, ".Harness") && !strings.Contains(f, ".v") || strings.Contains(f, "go-astikit") {
				fns = append(fns, strings.ReplaceAll(strings.ReplaceAll(f, "github.com/asticode/go-astits.", ""), "github.com/asticode/go-", ""))
			}
		}
	}
	sort.Strings(fns)
	var hs []string
	for h := range harnesses {
		hs = append(hs, h)
	}
	sort.Strings(hs)
	var reach []string
	for k := range agg.Reached {
		reach = append(reach, k)
	}
	sort.Strings(reach)
	samples := []interface{}{}
	for _, s := range agg.Samples {
		samples = append(samples, s)
	}
	if len(samples) == 0 {
		samples = append(samples, map[string]interface{}{"note": "all obligations folded syntactically; tasks", "tasks": len(runs)})
	}
	var kh []string
	for k := range knownHit {
		kh = append(kh, k)
	}
	sort.Strings(kh)
	cov := map[string]interface{}{
		"states":                              agg.Paths,
		"transitions":                         agg.Steps,
		"traces_validated_against_impl":       validated,
		"samples":                             samples,
		"evaluations":                         agg.Asserts,
		"distinct_nontrivial":                 agg.NonTrivial,
		"rule":                                "one obligation per vassert per explored path; non-trivial = the negated goal still contains a free variable after simplification and was decided by the SMT solver; distinct = different (assertion id, goal term, path condition)",
		"functions_encoded":                   fns,
		"harnesses":                           hs,
		"tasks":                               len(runs),
		"bounds":                              spec.Bounds[tier],
		"outside_claim":                       spec.Outside,
		"paths_by_outcome":                    agg.EndKinds,
		"obligations_folded":                  agg.Folded,
		"second_solver_verdicts":              agg.Fallbacks,
		"violations_by_model_diversification": agg.Diversified,
		"queries":                             map[string]int{"total": agg.Solver.Queries, "unsat": agg.Solver.Unsat, "sat": agg.Solver.Sat, "unknown": agg.Solver.Unknown, "error_lines": agg.Solver.Errors},
		"solver_time_s":                       agg.Solver.Time.Seconds(),
		"max_query_s":                         agg.Solver.MaxQuery.Seconds(),
		"diamond_merges":                      agg.Merges,
		"reach_witnesses":                     reach,
		"inconclusive":                        inconclusive,
		"known_findings_reproduced":           kh,
		"exhaustive":                          false,
	}
	ev := map[string]interface{}{
		"property_id": prop,
		"tier":        tier,
		"seed":        seed,
		"level":       "model_checking",
		"coverage":    cov,
		"assumptions": append(append([]string{}, globalAssumptions...), spec.Assumptions...),
		"wall_s":      wall.Seconds(),
		"violations":  violations,
	}
	b, _ := json.MarshalIndent(ev, "", " ")
	evDir := filepath.Join(verifDir(), "evidence")
	if so := scratchOut(); so != "" {
		evDir = filepath.Join(so, "evidence")
	}
	os.MkdirAll(evDir, 0o755)
	os.WriteFile(filepath.Join(evDir, prop+".json"), b, 0o644)
}

func droppedNames() []string {
	var out []string
	for k := range droppedDecls {
		out = append(out, k)
	}
	sort.Strings(out)
	return out
}

// checkDeadline: a check that does not end is as useless as one that does not decide: after this much wall-clock time
// (quick 30 min, thorough 6 h; the unchanged tree needs a fraction of it) the remaining exploration is abandoned and
// the check ends INCONCLUSIVE unless a violation was already found
var checkDeadline time.Time
var firstViolationAt int64
