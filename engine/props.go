package main

import (
	"fmt"
	"os"
)

func cmdMain(cmd string, args []string) {
	fmt.Fprintln(os.Stderr, "unknown command", cmd)
	os.Exit(2)
}
