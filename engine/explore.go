package main

// Path exploration by re-execution: a job is a decision prefix; workers pull jobs, run one path each,
// and push the untaken alternatives of every new fork as new jobs.

import (
	"fmt"
	"go/types"
	"os"
	"runtime"
	"runtime/debug"
	"sort"
	"strings"
	"sync"
	"sync/atomic"
	"time"

	"golang.org/x/tools/go/ssa"
)

type Config struct {
	Harness       string
	Args          []int64
	Solver        string
	TimeoutMs     int
	Merge         bool
	MaxDecisions  int
	MaxConcretize int
	MaxSteps      int64
	MaxArmSteps   int
	Workers       int
	MaxPaths      int64
	ExpectPanic   bool // harness expects a Go panic on every path reaching vexpectpanic (unused by default)
	Verbose       bool
	KnownOpen     map[string]bool // known-finding ids that are open (vknown returns its condition)
	Asserts       []string        // assertion-id prefixes the running property selects (nil: all)
	ViolAt        *int64          // shared by the tasks of one check: unix time of the first new violation (0: none yet)
	Deadline      time.Time       // wall-clock limit of the whole check (zero: none)
	StopFlag      *int32          // shared by the tasks of one check: set once enough new violations were found
}

type Job struct {
	Prefix []Decision
	Model  map[string]uint64
}

type Violation struct {
	Kind    string // assert | panic
	ID      string // assertion id or panic description
	Vector  []uint64
	Widths  []int
	Where   string
	Harness string
	Args    []int64
	Known   string // id of the known finding whose region contains it ("" = new)
}

type Sample struct {
	Harness string `json:"harness"`
	Assert  string `json:"obligation"`
	PCSize  int    `json:"path_condition_conjuncts"`
	Size    int    `json:"query_term_nodes"`
	Verdict string `json:"verdict"`
	Ms      int64  `json:"ms"`
	Term    string `json:"negated_goal_excerpt,omitempty"`
}

type TaskResult struct {
	Harness      string
	Args         []int64
	Paths        int64
	EndKinds     map[string]int64
	Steps        int64
	Asserts      int64 // assertion obligations discharged (queries or folded)
	NonTrivial   int64 // distinct assertion queries containing a free variable
	Folded       int64 // assertions that folded to true syntactically
	Violations   []Violation
	Reached      map[string]int64
	Unknowns     int64
	Funcs        map[string]int64
	Solver       SolverStats
	Merges       int64
	MergeFails   int64
	Inconclusive []string
	Wall         time.Duration
	Samples      []Sample
	MaxPC        int
	Witnesses    []Violation
	Diversified  int64 // violations found by evaluating the goal under diversified models of the path condition after the solver answered unknown
	Fallbacks    int64 // assertion verdicts obtained from a second solver after the first answered unknown
	Repairs      int64 // sat answers found by model repair + evaluation instead of the solver
}

type Engine struct {
	cappedRetries int
	fallbacks     int
	prog          *ssa.Program
	pkg           *ssa.Package
	cfg           Config

	mu       sync.Mutex
	cond     *sync.Cond
	queue    []*Job
	inflight int
	stopAll  bool

	nworkers   int
	wg         sync.WaitGroup
	res        TaskResult
	seenQ      map[string]bool
	mergeFails map[*ssa.BasicBlock]int
	intr       map[string]intrinsic
	methods    sync.Map
}

// global worker slots shared by all concurrently running tasks
var workerSlots = make(chan struct{}, 16)

func (e *Engine) push(j *Job) {
	e.mu.Lock()
	e.queue = append(e.queue, j)
	spawn := false
	if len(e.queue) > 0 && e.nworkers < e.cfg.Workers {
		select {
		case workerSlots <- struct{}{}:
			spawn = true
			e.nworkers++
			e.wg.Add(1)
		default:
		}
	}
	e.mu.Unlock()
	if spawn {
		go e.worker(true)
	}
	e.cond.Signal()
}

func (e *Engine) noteUnknown(what string) {
	e.mu.Lock()
	e.res.Unknowns++
	e.mu.Unlock()
}

func (e *Engine) noteFunc(fn *ssa.Function) {
	// cheap, racy-free accounting
	e.mu.Lock()
	e.res.Funcs[fn.String()]++
	e.mu.Unlock()
}

func (e *Engine) mergeBlacklisted(b *ssa.BasicBlock) bool {
	e.mu.Lock()
	defer e.mu.Unlock()
	return e.mergeFails[b] >= 3
}

func (e *Engine) noteMergeFail(b *ssa.BasicBlock) {
	e.mu.Lock()
	e.mergeFails[b]++
	e.mu.Unlock()
}

func (e *Engine) allowed(fn *ssa.Function) bool { return true }

func (e *Engine) lookupMethod(t types.Type, m *types.Func) *ssa.Function {
	type key struct {
		t    types.Type
		name string
	}
	k := key{t, m.Id()}
	if v, ok := e.methods.Load(k); ok {
		return v.(*ssa.Function)
	}
	ms := e.prog.MethodSets.MethodSet(t)
	sel := ms.Lookup(m.Pkg(), m.Name())
	if sel == nil {
		return nil
	}
	fn := e.prog.MethodValue(sel)
	e.methods.Store(k, fn)
	return fn
}

func newWorker(e *Engine) *Worker {
	tt := NewTermTable()
	w := &Worker{eng: e, tt: tt}
	w.solver = NewSolver(e.cfg.Solver, e.cfg.TimeoutMs, tt)
	return w
}

func (w *Worker) resetPath(j *Job) {
	w.pc = w.pc[:0]
	w.prefix = j.Prefix
	w.decIdx = 0
	w.decs = nil
	w.model = nil
	w.modelOK = false
	if len(j.Prefix) == 0 {
		w.model, w.modelOK = map[string]uint64{}, true
	}
	w.jobModel = j.Model
	w.nondets = w.nondets[:0]
	w.nvars = 0
	w.globals = map[*ssa.Global]*Value{}
	w.consts = map[*ssa.Const]Value{}
	w.steps = 0
	w.depth = 0
	w.lenient = false
	w.journalOn = false
	w.journal = w.journal[:0]
	w.mergeLvl = 0
	w.poolFree = map[*Value][]Value{}
	w.stackDesc = w.stackDesc[:0]
	w.pathReach = w.pathReach[:0]
	w.observes = w.observes[:0]
	w.pathViol = 0
}

// replaying reports whether the path is still inside its decision prefix (obligations there were
// already discharged by the path that created the job).
func (w *Worker) replaying() bool {
	return w.decIdx < len(w.prefix)
}

func (w *Worker) runPath(j *Job) (end pathEnd) {
	w.resetPath(j)
	defer func() {
		if r := recover(); r != nil {
			if pe, ok := r.(pathEnd); ok {
				end = pe
				return
			}
			end = pathEnd{"engine-error", fmt.Sprintf("%v\n%s", r, debug.Stack())}
		}
	}()
	e := w.eng
	// package initialisation (current source: tables, error values, pools)
	if init := e.pkg.Func("init"); init != nil {
		w.call(init, nil, nil)
	}
	h := e.pkg.Func(e.cfg.Harness)
	if h == nil {
		return pathEnd{"engine-error", "harness not found: " + e.cfg.Harness}
	}
	args := make([]Value, len(h.Params))
	for i := range args {
		var v int64
		if i < len(e.cfg.Args) {
			v = e.cfg.Args[i]
		}
		args[i] = w.tt.BV(uint64(v), 64)
	}
	w.call(h, args, nil)
	return pathEnd{"ok", ""}
}

func (e *Engine) worker(helper bool) {
	defer e.wg.Done()
	defer func() { <-workerSlots }()
	w := newWorker(e)
	defer w.solver.Close()
	for {
		e.mu.Lock()
		if helper && len(e.queue) == 0 {
			// helpers leave as soon as there is nothing to take; the main worker waits for stragglers
			e.nworkers--
			e.mu.Unlock()
			break
		}
		for len(e.queue) == 0 && e.inflight > 0 && !e.stopAll {
			e.cond.Wait()
		}
		if e.stopAll || (len(e.queue) == 0 && e.inflight == 0) {
			e.nworkers--
			e.mu.Unlock()
			e.cond.Broadcast()
			break
		}
		j := e.queue[len(e.queue)-1]
		e.queue = e.queue[:len(e.queue)-1]
		e.inflight++
		e.mu.Unlock()

		end := w.runPath(j)

		e.mu.Lock()
		e.inflight--
		e.res.Paths++
		e.res.EndKinds[end.kind]++
		e.res.Steps += w.steps
		if len(w.pc) > e.res.MaxPC {
			e.res.MaxPC = len(w.pc)
		}
		switch end.kind {
		case "ok", "infeasible":
			if end.kind == "ok" {
				for _, id := range w.pathReach {
					e.res.Reached[id]++
				}
				if len(e.res.Witnesses) < 2 && len(w.pathReach) > 0 && w.pathViol == 0 {
					e.mu.Unlock()
					wv := w.makeViolation("witness", "")
					e.mu.Lock()
					e.res.Witnesses = append(e.res.Witnesses, wv)
				}
			}
		case "panic":
			// a Go panic in the code under test is a violation (replayed before it is reported)
			v := w.makeViolation("panic", end.msg)
			e.res.Violations = append(e.res.Violations, v)
		default:
			e.res.Inconclusive = append(e.res.Inconclusive, end.kind+": "+end.msg)
		}
		if e.cfg.Verbose {
			fmt.Fprintf(os.Stderr, "[path %d] %s %s decs=%d steps=%d pc=%d\n", e.res.Paths, end.kind, end.msg, len(w.decs), w.steps, len(w.pc))
		}
		if !e.stopAll && e.enoughViolations() {
			e.stopAll = true
		}
		if e.res.Paths%64 == 0 && memoryExceeded() && !e.stopAll {
			e.res.Inconclusive = append(e.res.Inconclusive, "budget: process memory above the limit; exploration stopped")
			e.stopAll = true
		}
		if !e.stopAll && e.cfg.ViolAt != nil && (len(e.queue) > 0 || e.inflight > 0) {
			if at := atomic.LoadInt64(e.cfg.ViolAt); at != 0 && time.Now().Unix() > at+300 {
				e.stopAll = true
			}
		}
		if !e.stopAll && !e.cfg.Deadline.IsZero() && time.Now().After(e.cfg.Deadline) && (len(e.queue) > 0 || e.inflight > 0) {
			e.res.Inconclusive = append(e.res.Inconclusive, "budget: wall-clock limit of the check reached; exploration stopped")
			e.stopAll = true
		}
		if e.cfg.MaxPaths > 0 && e.res.Paths >= e.cfg.MaxPaths && (len(e.queue) > 0 || e.inflight > 0) {
			e.res.Inconclusive = append(e.res.Inconclusive, fmt.Sprintf("budget: more than %d paths", e.cfg.MaxPaths))
			e.stopAll = true
		}
		e.mu.Unlock()
		e.cond.Broadcast()
	}
	e.mu.Lock()
	s := w.solver.Stats
	e.res.Solver.Queries += s.Queries
	e.res.Solver.Sat += s.Sat
	e.res.Solver.Unsat += s.Unsat
	e.res.Solver.Unknown += s.Unknown
	e.res.Solver.Errors += s.Errors
	e.res.Solver.Time += s.Time
	e.res.Solver.Restarts += s.Restarts
	if s.MaxQuery > e.res.Solver.MaxQuery {
		e.res.Solver.MaxQuery = s.MaxQuery
	}
	e.res.Merges += w.mstats.ok
	e.res.MergeFails += w.mstats.fail
	e.mu.Unlock()
}

func (w *Worker) makeViolation(kind, id string) Violation {
	// a model of the current path condition gives the input vector
	var m map[string]uint64
	if w.modelOK {
		m = w.model
	} else {
		r, mm := w.solver.Check(w.pc, nil, true)
		if r == Sat {
			m = mm
		}
	}
	return w.violationFromModel(kind, id, m)
}

func (w *Worker) violationFromModel(kind, id string, m map[string]uint64) Violation {
	v := Violation{Kind: kind, ID: id, Where: w.where(), Harness: w.eng.cfg.Harness, Args: w.eng.cfg.Args}
	for _, nv := range w.nondets {
		v.Vector = append(v.Vector, m[nv.name])
		if nv.kind == KBool {
			v.Widths = append(v.Widths, 1)
		} else {
			v.Widths = append(v.Widths, int(nv.w))
		}
	}
	return v
}

// enoughViolations: this task has already produced several new (not known-finding) violations of the property being
// checked; exploring further paths of a broken tree only costs time (the check exits 1 in any case)
func (e *Engine) enoughViolations() bool {
	if e.cfg.StopFlag != nil && atomic.LoadInt32(e.cfg.StopFlag) != 0 {
		return true
	}
	n := 0
	for _, v := range e.res.Violations {
		if v.Known != "" {
			continue
		}
		if v.Kind == "assert" && len(e.cfg.Asserts) > 0 && !hasPrefixAny(v.ID, e.cfg.Asserts) {
			continue
		}
		n++
	}
	if n > 0 && e.cfg.ViolAt != nil {
		// the verdict of the check is fixed by the first new violation: whatever is still being explored gets
		// five more minutes (a broken tree can make the remaining paths arbitrarily expensive)
		atomic.CompareAndSwapInt64(e.cfg.ViolAt, 0, time.Now().Unix())
	}
	return n >= 6
}

// memoryExceeded: the Go heap of the engine is above 20 GB (checks must end as INCONCLUSIVE, not be OOM-killed)
func memoryExceeded() bool {
	var ms runtime.MemStats
	runtime.ReadMemStats(&ms)
	return ms.HeapAlloc > 20<<30
}

// RunTask explores one harness (with concrete shard arguments) completely.
func RunTask(prog *ssa.Program, pkg *ssa.Package, cfg Config) *TaskResult {
	e := &Engine{prog: prog, pkg: pkg, cfg: cfg}
	e.cond = sync.NewCond(&e.mu)
	e.res = TaskResult{Harness: cfg.Harness, Args: cfg.Args, EndKinds: map[string]int64{}, Reached: map[string]int64{}, Funcs: map[string]int64{}}
	e.seenQ = map[string]bool{}
	e.mergeFails = map[*ssa.BasicBlock]int{}
	e.intr = intrinsicTable()
	t0 := time.Now()
	e.queue = []*Job{{}}
	if e.cfg.Workers < 1 {
		e.cfg.Workers = 1
	}
	workerSlots <- struct{}{}
	e.nworkers = 1
	e.wg.Add(1)
	go e.worker(false)
	e.wg.Wait()
	e.res.Wall = time.Since(t0)
	return &e.res
}

func (r *TaskResult) Summary() string {
	var ks []string
	for k, v := range r.EndKinds {
		ks = append(ks, fmt.Sprintf("%s=%d", k, v))
	}
	sort.Strings(ks)
	return fmt.Sprintf("%s%v: paths=%d [%s] steps=%d asserts=%d (nontrivial=%d folded=%d) violations=%d unknown=%d merges=%d/%d queries=%d (sat=%d unsat=%d unk=%d err=%d) solver=%.1fs maxq=%.2fs wall=%.1fs",
		r.Harness, r.Args, r.Paths, strings.Join(ks, " "), r.Steps, r.Asserts, r.NonTrivial, r.Folded, len(r.Violations), r.Unknowns, r.Merges, r.Merges+r.MergeFails,
		r.Solver.Queries, r.Solver.Sat, r.Solver.Unsat, r.Solver.Unknown, r.Solver.Errors, r.Solver.Time.Seconds(), r.Solver.MaxQuery.Seconds(), r.Wall.Seconds())
}
