package main

// Symbolic interpreter for go/ssa.

import (
	"fmt"
	"go/constant"
	"go/token"
	"go/types"
	"os"
	"strings"
	"sync"
	"time"

	"golang.org/x/tools/go/ssa"
)

var debugQueries = os.Getenv("VERIF_DEBUG_Q") != ""

type fnInfo struct {
	idx  map[ssa.Value]int
	n    int
	ipdo map[*ssa.BasicBlock]*ssa.BasicBlock // immediate post-dominators (lazy)
}

var fnInfos sync.Map

func infoOf(fn *ssa.Function) *fnInfo {
	if v, ok := fnInfos.Load(fn); ok {
		return v.(*fnInfo)
	}
	fi := &fnInfo{idx: map[ssa.Value]int{}}
	add := func(v ssa.Value) {
		fi.idx[v] = fi.n
		fi.n++
	}
	for _, p := range fn.Params {
		add(p)
	}
	for _, p := range fn.FreeVars {
		add(p)
	}
	for _, b := range fn.Blocks {
		for _, in := range b.Instrs {
			if v, ok := in.(ssa.Value); ok {
				add(v)
			}
		}
	}
	fi.ipdo = computeIPdom(fn)
	v, _ := fnInfos.LoadOrStore(fn, fi)
	return v.(*fnInfo)
}

type deferred struct {
	fn   Value
	args []Value
}

type Frame struct {
	fn     *ssa.Function
	info   *fnInfo
	regs   []Value
	block  *ssa.BasicBlock
	prev   *ssa.BasicBlock
	defers []deferred
	result Value
	done   bool

	phiOverride []Value
	armRet      int // >0: a merge arm of this frame may end by returning
}

// pathEnd is thrown (Go panic) to end the current path
type pathEnd struct {
	kind string // infeasible | panic | unsupported | budget | mergefail
	msg  string
}

type Decision struct {
	Val    int64
	Forced bool
	Merge  bool // decision was "merge succeeded" (Val unused)
}

type Worker struct {
	eng    *Engine
	tt     *TermTable
	solver *Solver

	pc       []*Term
	prefix   []Decision
	decIdx   int
	decs     []Decision
	model    map[string]uint64
	modelOK  bool
	nondets  []*Term // in creation order on this path
	nvars    int
	globals  map[*ssa.Global]*Value
	consts   map[*ssa.Const]Value
	steps    int64
	depth    int
	lenient  bool
	observes []string

	// merging
	journalOn bool
	journal   []jent
	mergeLvl  int

	// intrinsic state
	poolFree   map[*Value][]Value // sync.Pool slot -> released items (LIFO)
	errTypes   *errTypes
	pathStats  pathStats
	stackDesc  []string
	jobModel   map[string]uint64
	pathReach  []string
	armBudget  int64
	mergeCheck bool
	pathViol   int  // violations recorded on the current path (such a path is not used as a witness)
	softGoal   bool // the next feasibility queries are branch/merge pre-checks (not obligations)
	nq         int
	varsMemo   map[int32]map[int32]bool
	mstats     struct{ ok, fail int64 }
}

type pathStats struct {
	asserts int
	reached map[string]bool
}

func (w *Worker) abort(kind, format string, a ...interface{}) {
	panic(pathEnd{kind, fmt.Sprintf(format, a...)})
}

func (w *Worker) where() string {
	if len(w.stackDesc) == 0 {
		return ""
	}
	n := len(w.stackDesc)
	lo := n - 6
	if lo < 0 {
		lo = 0
	}
	return strings.Join(w.stackDesc[lo:], " > ")
}

// ---------------- operand access ----------------

func (w *Worker) get(fr *Frame, v ssa.Value) Value {
	switch v := v.(type) {
	case *ssa.Const:
		return w.constVal(v)
	case *ssa.Global:
		return w.globalPtr(v)
	case *ssa.Function:
		return v
	case *ssa.Builtin:
		return v
	}
	i, ok := fr.info.idx[v]
	if !ok {
		panic(fmt.Sprintf("no register for %v in %v", v, fr.fn))
	}
	return fr.regs[i]
}

func (w *Worker) set(fr *Frame, v ssa.Value, x Value) {
	fr.regs[fr.info.idx[v]] = x
}

func (w *Worker) constVal(c *ssa.Const) Value {
	if v, ok := w.consts[c]; ok {
		return v
	}
	var r Value
	t := c.Type()
	if c.Value == nil {
		r = w.zero(t)
	} else {
		switch u := t.Underlying().(type) {
		case *types.Basic:
			switch {
			case u.Info()&types.IsBoolean != 0:
				r = w.tt.Bool(constant.BoolVal(c.Value))
			case u.Info()&types.IsInteger != 0:
				wd := intWidth(u)
				if i, ok := constant.Int64Val(constant.ToInt(c.Value)); ok {
					r = w.tt.BV(uint64(i), wd)
				} else if ui, ok := constant.Uint64Val(constant.ToInt(c.Value)); ok {
					r = w.tt.BV(ui, wd)
				} else {
					panic("const int out of range")
				}
			case u.Info()&types.IsFloat != 0:
				f, _ := constant.Float64Val(c.Value)
				r = w.tt.FP(f)
			case u.Info()&types.IsString != 0:
				r = constant.StringVal(c.Value)
			default:
				panic(fmt.Sprintf("const: unsupported basic %v", u))
			}
		default:
			panic(fmt.Sprintf("const: unsupported type %v", t))
		}
	}
	w.consts[c] = r
	return r
}

func (w *Worker) globalPtr(g *ssa.Global) *Value {
	if p, ok := w.globals[g]; ok {
		return p
	}
	slot := new(Value)
	*slot = w.zero(g.Type().(*types.Pointer).Elem())
	w.globals[g] = slot
	return slot
}

// ---------------- decisions ----------------

// tryRepair: for a goal of the form lhs == rhs that the current model falsifies, try to make it true by assigning
// the variables of one side (when that side is built from concat/extract/zext of variables) to the value of the
// other side, and re-validate the whole path condition by evaluation. This is a model-search shortcut (e.g. a
// checksum field made of free input bytes); it never claims unsat.
func (w *Worker) tryRepair(c *Term) (map[string]uint64, bool) {
	if !w.modelOK || c.op != OEq || c.args[0].kind != KBV {
		return nil, false
	}
	for side := 0; side < 2; side++ {
		src, dst := c.args[side], c.args[1-side]
		m := make(map[string]uint64, len(w.model)+8)
		for k, v := range w.model {
			m[k] = v
		}
		memo := map[int32]uint64{}
		val := w.tt.evalNamed(src, m, memo)
		if !assignTerm(dst, val, m) {
			continue
		}
		memo = map[int32]uint64{}
		if w.tt.evalNamed(c, m, memo) != 1 {
			continue
		}
		ok := true
		for _, p := range w.pc {
			if w.tt.evalNamed(p, m, memo) != 1 {
				ok = false
				break
			}
		}
		if ok {
			return m, true
		}
	}
	return nil, false
}

// assignTerm sets variables so that t evaluates to val (only through concat / zext / extract-of-var / var)
func assignTerm(t *Term, val uint64, m map[string]uint64) bool {
	switch t.op {
	case OVar:
		m[t.name] = val & mask(int(t.w))
		return true
	case OConst:
		return t.val == val
	case OConcat:
		lw := uint(t.args[1].w)
		return assignTerm(t.args[1], val&mask(int(lw)), m) && assignTerm(t.args[0], val>>lw, m)
	case OZext:
		if val&^mask(int(t.args[0].w)) != 0 {
			return false
		}
		return assignTerm(t.args[0], val, m)
	case OExtract:
		if v := t.args[0]; v.op == OVar {
			lo := uint(t.p2)
			old := m[v.name]
			old &^= mask(int(t.w)) << lo
			m[v.name] = old | (val&mask(int(t.w)))<<lo
			return true
		}
	}
	return false
}

func (w *Worker) feasible(c *Term, wantModel bool) (Result, map[string]uint64) {
	if !w.modelOK && c.size > 20000 {
		// a large goal (e.g. a checksum over symbolic bytes): first get a model of the path condition alone, then
		// try evaluation / repair before handing the big term to the solver
		if r, m := w.solver.Check(w.pc, nil, true); r == Sat && m != nil {
			w.model, w.modelOK = m, true
		}
	}
	if cur, ok := w.evalUnderModel(c); ok && cur {
		return Sat, w.model
	}
	if m, ok := w.tryRepair(c); ok {
		w.eng.mu.Lock()
		w.eng.res.Repairs++
		w.eng.mu.Unlock()
		return Sat, m
	}
	if debugQueries {
		w.nq++
		if w.nq%200 == 0 {
			fmt.Fprintf(os.Stderr, "[q%d] pc=%d mergeLvl=%d steps=%d at %s :: %s\n", w.nq, len(w.pc), w.mergeLvl, w.steps, w.where(), c.String())
		}
	}
	if w.softGoal && c.size > 20000 {
		// feasibility of a huge goal (checksum-like): give up quickly; unknown keeps both sides, which is sound
		w.solver.nextTO = 1500
	} else if w.mergeCheck {
		// merge pre-check: unknown means "merge anyway" (sound), so do not wait long
		w.solver.nextTO = 2000
	}
	t0 := time.Now()
	res, m := w.solver.Check(w.pc, c, wantModel)
	if debugQueries && time.Since(t0) > 500*time.Millisecond {
		fmt.Fprintf(os.Stderr, "[slow %v %s] size=%d pc=%d modelOK=%v soft=%v at %s\n", time.Since(t0), res, c.size, len(w.pc), w.modelOK, w.softGoal, w.where())
	}
	return res, m
}

func (w *Worker) evalUnderModel(c *Term) (bool, bool) {
	if !w.modelOK {
		return false, false
	}
	memo := map[int32]uint64{}
	v := w.tt.evalNamed(c, w.model, memo)
	return v == 1, true
}

// branch decides a symbolic condition, forking when both sides are feasible.
func (w *Worker) branch(c *Term) bool {
	if c.IsConst() {
		return c.val == 1
	}
	k := w.decIdx
	w.decIdx++
	if k < len(w.prefix) {
		d := w.prefix[k]
		w.decs = append(w.decs, d)
		if d.Merge {
			panic("branch: prefix says merge")
		}
		tk := d.Val != 0
		if !d.Forced {
			if tk {
				w.pc = append(w.pc, c)
			} else {
				w.pc = append(w.pc, w.tt.Not(c))
			}
			w.modelOK = false
		}
		w.afterPrefixDecision()
		return tk
	}
	if len(w.decs) > w.eng.cfg.MaxDecisions {
		w.abort("budget", "more than %d decisions on one path (unwinding bound) at %s", w.eng.cfg.MaxDecisions, w.where())
	}
	nc := w.tt.Not(c)
	var feasT, feasF bool
	var mT, mF map[string]uint64
	w.softGoal = true
	defer func() { w.softGoal = false }()
	if cur, ok := w.evalUnderModel(c); ok {
		if cur {
			feasT, mT = true, w.model
			r, m := w.feasible(nc, true)
			feasF, mF = r != Unsat, m
			if r == Unknown {
				w.eng.noteUnknown("branch")
			}
		} else {
			feasF, mF = true, w.model
			r, m := w.feasible(c, true)
			feasT, mT = r != Unsat, m
			if r == Unknown {
				w.eng.noteUnknown("branch")
			}
		}
	} else {
		r, m := w.feasible(c, true)
		feasT, mT = r != Unsat, m
		if r == Unknown {
			w.eng.noteUnknown("branch")
		}
		r, m = w.feasible(nc, true)
		feasF, mF = r != Unsat, m
		if r == Unknown {
			w.eng.noteUnknown("branch")
		}
	}
	switch {
	case feasT && feasF:
		if w.mergeLvl > 0 {
			// inside a merge attempt: nested forks make the merge fail
			w.abort("mergefail", "fork inside merge arm")
		}
		alt := append(append([]Decision{}, w.decs...), Decision{Val: 0})
		w.eng.push(&Job{Prefix: alt, Model: mF})
		w.decs = append(w.decs, Decision{Val: 1})
		w.pc = append(w.pc, c)
		w.model, w.modelOK = mT, mT != nil
		return true
	case feasT:
		w.decs = append(w.decs, Decision{Val: 1, Forced: true})
		w.model, w.modelOK = mT, mT != nil
		return true
	case feasF:
		w.decs = append(w.decs, Decision{Val: 0, Forced: true})
		w.model, w.modelOK = mF, mF != nil
		return false
	}
	w.abort("infeasible", "both sides infeasible")
	return false
}

func (w *Worker) afterPrefixDecision() {
	if w.decIdx == len(w.prefix) && w.jobModel != nil && w.mergeLvl == 0 {
		w.model, w.modelOK = w.jobModel, true
		w.jobModel = nil
	}
}

// concretize returns a concrete value for t, forking over all feasible values (bounded).
func (w *Worker) concretize(t *Term, what string) int64 {
	if t.IsConst() {
		return sext64(t.val, int(t.w))
	}
	k := w.decIdx
	w.decIdx++
	if k < len(w.prefix) {
		d := w.prefix[k]
		w.decs = append(w.decs, d)
		if !d.Forced {
			w.pc = append(w.pc, w.tt.Eq(t, w.tt.BV(uint64(d.Val), int(t.w))))
			w.modelOK = false
		}
		w.afterPrefixDecision()
		return d.Val
	}
	if w.mergeLvl > 0 {
		w.abort("mergefail", "concretisation inside merge arm")
	}
	var vals []uint64
	var models []map[string]uint64
	excl := w.tt.True
	max := w.eng.cfg.MaxConcretize
	for {
		var m map[string]uint64
		var r Result
		if len(vals) == 0 && w.modelOK {
			r, m = Sat, w.model
		} else {
			r, m = w.feasible(excl, true)
		}
		if r == Unknown {
			w.eng.noteUnknown("concretize")
			w.abort("unsupported", "solver unknown while enumerating values of %s at %s", what, w.where())
		}
		if r == Unsat {
			break
		}
		v := w.tt.evalNamed(t, m, map[int32]uint64{})
		vals = append(vals, v)
		models = append(models, m)
		excl = w.tt.And(excl, w.tt.Not(w.tt.Eq(t, w.tt.BV(v, int(t.w)))))
		if len(vals) > max {
			w.abort("budget", "more than %d feasible values for %s at %s", max, what, w.where())
		}
	}
	if len(vals) == 0 {
		w.abort("infeasible", "no feasible value")
	}
	if len(vals) == 1 {
		v := sext64(vals[0], int(t.w))
		w.decs = append(w.decs, Decision{Val: v, Forced: true})
		w.model, w.modelOK = models[0], true
		return v
	}
	// sort ascending for determinism
	for i := 1; i < len(vals); i++ {
		for j := i; j > 0 && vals[j] < vals[j-1]; j-- {
			vals[j], vals[j-1] = vals[j-1], vals[j]
			models[j], models[j-1] = models[j-1], models[j]
		}
	}
	for i := 1; i < len(vals); i++ {
		alt := append(append([]Decision{}, w.decs...), Decision{Val: sext64(vals[i], int(t.w))})
		w.eng.push(&Job{Prefix: alt, Model: models[i]})
	}
	v := sext64(vals[0], int(t.w))
	w.decs = append(w.decs, Decision{Val: v})
	w.pc = append(w.pc, w.tt.Eq(t, w.tt.BV(vals[0], int(t.w))))
	w.model, w.modelOK = models[0], true
	return v
}

func (w *Worker) concInt(v Value, what string) int {
	return int(w.concretize(v.(*Term), what))
}

// assume adds c to the path condition; ends the path when infeasible.
func (w *Worker) assume(c *Term) {
	if c.IsConst() {
		if c.val == 0 {
			w.abort("infeasible", "assume false")
		}
		return
	}
	if cur, ok := w.evalUnderModel(c); ok && cur {
		w.pc = append(w.pc, c)
		return
	}
	r, m := w.feasible(c, true)
	if r == Unsat {
		w.abort("infeasible", "assumption infeasible")
	}
	if r == Unknown {
		w.eng.noteUnknown("assume")
	}
	w.pc = append(w.pc, c)
	w.model, w.modelOK = m, m != nil && r == Sat
}

// checkPanic: cond is the condition under which the operation panics.
func (w *Worker) checkPanic(cond *Term, what string) {
	if cond.IsConst() {
		if cond.val == 1 {
			w.goPanic(what)
		}
		return
	}
	if w.mergeLvl > 0 {
		// keep it simple: a possibly-panicking operation inside an arm makes the merge fail unless provably safe
		r, _ := w.feasible(cond, false)
		if r != Unsat {
			w.abort("mergefail", "possible panic in arm")
		}
		return
	}
	if w.branch(cond) {
		w.goPanic(what)
	}
}

// goPanic: the interpreted program panics on this path.
func (w *Worker) goPanic(what string) {
	w.abort("panic", "%s at %s", what, w.where())
}

// ---------------- calls ----------------

func (w *Worker) callValue(fv Value, args []Value, site string) Value {
	switch f := fv.(type) {
	case *ssa.Function:
		return w.call(f, args, nil)
	case *Closure:
		if f == nil {
			w.goPanic("call of nil func")
		}
		return w.call(f.Fn, args, f.Env)
	case *ssa.Builtin:
		panic("builtin as value")
	case *Opaque:
		if w.lenient {
			return &Opaque{"call"}
		}
	}
	w.abort("unsupported", "call of %T at %s", fv, site)
	return nil
}

func (w *Worker) call(fn *ssa.Function, args []Value, env []Value) Value {
	if w.lenient && fn.Pkg != nil && fn.Pkg != w.eng.pkg && fn.Name() != "init" {
		if pp := fn.Pkg.Pkg.Path(); !initWhitelist[pp] && pp != "errors" {
			return w.lenientResult(fn)
		}
	}
	if in := w.eng.intrinsicFor(fn); in != nil {
		return in(w, fn, args)
	}
	if fn.Blocks == nil {
		if w.lenient {
			return w.lenientResult(fn)
		}
		w.abort("unsupported", "external function %s (no body) at %s", fn.String(), w.where())
	}
	if !w.eng.allowed(fn) {
		if w.lenient {
			return w.lenientResult(fn)
		}
		w.abort("unsupported", "function %s outside the supported set at %s", fn.String(), w.where())
	}
	w.eng.noteFunc(fn)
	info := infoOf(fn)
	fr := &Frame{fn: fn, info: info, regs: make([]Value, info.n)}
	if len(args) != len(fn.Params) {
		panic(fmt.Sprintf("arity mismatch calling %s: %d vs %d", fn, len(args), len(fn.Params)))
	}
	copy(fr.regs, args)
	copy(fr.regs[len(fn.Params):], env)
	w.depth++
	if w.depth > 200 {
		w.abort("budget", "call depth > 200")
	}
	w.stackDesc = append(w.stackDesc, fn.Name())
	fr.block = fn.Blocks[0]
	w.run(fr, nil)
	w.stackDesc = w.stackDesc[:len(w.stackDesc)-1]
	w.depth--
	return fr.result
}

func (w *Worker) lenientResult(fn *ssa.Function) Value {
	res := fn.Signature.Results()
	switch res.Len() {
	case 0:
		return nil
	case 1:
		return w.lenientZero(res.At(0).Type())
	}
	t := make(Tuple, res.Len())
	for i := range t {
		t[i] = w.lenientZero(res.At(i).Type())
	}
	return t
}

func (w *Worker) lenientZero(t types.Type) (v Value) {
	defer func() {
		if r := recover(); r != nil {
			v = &Opaque{"zero"}
		}
	}()
	return w.zero(t)
}

// run executes fr until it returns, or until control is about to enter block stop (merge arms).
func (w *Worker) run(fr *Frame, stop *ssa.BasicBlock) {
	for {
		b := fr.block
		// phis (parallel)
		nphi := 0
		for _, in := range b.Instrs {
			if _, ok := in.(*ssa.Phi); ok {
				nphi++
			} else {
				break
			}
		}
		if nphi > 0 && fr.phiOverride != nil {
			for i := 0; i < nphi; i++ {
				w.set(fr, b.Instrs[i].(*ssa.Phi), fr.phiOverride[i])
			}
			fr.phiOverride = nil
		} else if nphi > 0 {
			pi := -1
			for i, p := range b.Preds {
				if p == fr.prev {
					pi = i
					break
				}
			}
			if pi < 0 {
				panic("phi: predecessor not found")
			}
			var tmp [8]Value
			vals := tmp[:0]
			for i := 0; i < nphi; i++ {
				vals = append(vals, w.get(fr, b.Instrs[i].(*ssa.Phi).Edges[pi]))
			}
			for i := 0; i < nphi; i++ {
				w.set(fr, b.Instrs[i].(*ssa.Phi), vals[i])
			}
		}
		var next *ssa.BasicBlock
		for _, in := range b.Instrs[nphi:] {
			w.steps++
			switch in := in.(type) {
			case *ssa.Jump:
				next = b.Succs[0]
			case *ssa.If:
				c := w.get(fr, in.Cond).(*Term)
				if c.IsConst() {
					if c.val == 1 {
						next = b.Succs[0]
					} else {
						next = b.Succs[1]
					}
				} else {
					if nb, ret := w.tryMerge(fr, b, c, stop); ret {
						return
					} else if nb != nil {
						next = nb
					} else if w.branch(c) {
						next = b.Succs[0]
					} else {
						next = b.Succs[1]
					}
				}
			case *ssa.Return:
				switch len(in.Results) {
				case 0:
					fr.result = nil
				case 1:
					fr.result = w.get(fr, in.Results[0])
				default:
					t := make(Tuple, len(in.Results))
					for i, r := range in.Results {
						t[i] = w.get(fr, r)
					}
					fr.result = t
				}
				fr.done = true
				if stop != nil {
					w.abort("mergefail", "return inside merge arm")
				}
				if fr.armRet > 0 && len(fr.defers) > 0 {
					w.abort("mergefail", "return with pending defers inside merge arm")
				}
				return
			case *ssa.Panic:
				v := w.get(fr, in.X)
				w.goPanic("explicit panic: " + w.descValue(v))
			default:
				w.exec(fr, in)
			}
		}
		if w.mergeLvl > 0 && w.steps > w.armBudget {
			w.abort("mergefail", "arm too long")
		}
		if w.steps > w.eng.cfg.MaxSteps {
			w.abort("budget", "more than %d SSA instructions on one path at %s", w.eng.cfg.MaxSteps, w.where())
		}
		if next == nil {
			panic("block without terminator")
		}
		fr.prev = b
		fr.block = next
		if stop != nil && next == stop {
			return
		}
	}
}

func (w *Worker) descValue(v Value) string {
	switch x := v.(type) {
	case Iface:
		if s, ok := x.V.(string); ok {
			return s
		}
		if x.T != nil {
			return x.T.String()
		}
	case string:
		return x
	}
	return fmt.Sprintf("%T", v)
}

// ---------------- instructions ----------------

func (w *Worker) exec(fr *Frame, in ssa.Instruction) {
	switch in := in.(type) {
	case *ssa.DebugRef:
	case *ssa.UnOp:
		w.set(fr, in, w.unop(fr, in))
	case *ssa.BinOp:
		w.set(fr, in, w.binop(in.Op, in.X.Type(), in.Y.Type(), w.get(fr, in.X), w.get(fr, in.Y)))
	case *ssa.Call:
		w.set(fr, in, w.doCall(fr, &in.Call, in.Pos()))
	case *ssa.ChangeInterface:
		w.set(fr, in, w.get(fr, in.X))
	case *ssa.ChangeType:
		w.set(fr, in, w.get(fr, in.X))
	case *ssa.Convert:
		w.set(fr, in, w.convert(in.X.Type(), in.Type(), w.get(fr, in.X)))
	case *ssa.MakeInterface:
		w.set(fr, in, Iface{T: in.X.Type(), V: w.get(fr, in.X)})
	case *ssa.Extract:
		w.set(fr, in, w.get(fr, in.Tuple).(Tuple)[in.Index])
	case *ssa.Slice:
		w.set(fr, in, w.slice(fr, in))
	case *ssa.Alloc:
		slot := new(Value)
		*slot = w.zero(in.Type().(*types.Pointer).Elem())
		w.set(fr, in, slot)
	case *ssa.MakeSlice:
		n := w.concInt(w.get(fr, in.Len), "make len")
		c := w.concInt(w.get(fr, in.Cap), "make cap")
		if n < 0 || c < n {
			w.goPanic("makeslice: len/cap out of range")
		}
		if c > 1<<24 {
			w.abort("budget", "make of %d elements", c)
		}
		et := in.Type().Underlying().(*types.Slice).Elem()
		s := make(SliceV, n, c)
		full := s[:c]
		z := w.zero(et)
		switch z.(type) {
		case Struct, Array:
			for i := range full {
				full[i] = w.zero(et)
			}
		default:
			for i := range full {
				full[i] = z
			}
		}
		w.set(fr, in, s)
	case *ssa.MakeMap:
		w.set(fr, in, &MapV{})
	case *ssa.MakeClosure:
		env := make([]Value, len(in.Bindings))
		for i, b := range in.Bindings {
			env[i] = w.get(fr, b)
		}
		w.set(fr, in, &Closure{Fn: in.Fn.(*ssa.Function), Env: env})
	case *ssa.FieldAddr:
		p := w.get(fr, in.X).(*Value)
		if p == nil {
			w.goPanic("nil pointer dereference (field address)")
		}
		st, ok := (*p).(Struct)
		if !ok {
			panic(fmt.Sprintf("FieldAddr on %T in %s", *p, fr.fn))
		}
		w.set(fr, in, &st[in.Field])
	case *ssa.Field:
		st := w.get(fr, in.X).(Struct)
		w.set(fr, in, copyVal(st[in.Field]))
	case *ssa.IndexAddr:
		w.set(fr, in, w.indexAddr(fr, in))
	case *ssa.Index:
		w.set(fr, in, w.index(fr, in))
	case *ssa.Lookup:
		w.set(fr, in, w.lookup(fr, in))
	case *ssa.MapUpdate:
		m := w.get(fr, in.Map).(*MapV)
		if m == nil {
			w.goPanic("assignment to entry in nil map")
		}
		w.mapSet(m, w.get(fr, in.Key), copyVal(w.get(fr, in.Value)))
	case *ssa.Store:
		p := w.get(fr, in.Addr)
		if sp, ok := p.(*symPtr); ok {
			w.symStore(sp, w.get(fr, in.Val))
			return
		}
		pp := p.(*Value)
		if pp == nil {
			w.goPanic("nil pointer dereference (store)")
		}
		w.storeInto(pp, w.get(fr, in.Val))
	case *ssa.TypeAssert:
		w.set(fr, in, w.typeAssert(in, w.get(fr, in.X)))
	case *ssa.Range:
		x := w.get(fr, in.X)
		switch x := x.(type) {
		case *MapV:
			it := &MapIter{}
			if x != nil {
				it.ents = append(it.ents, x.ents...)
			}
			w.set(fr, in, it)
		case string:
			w.set(fr, in, &StrIter{s: x})
		default:
			panic("range over " + fmt.Sprintf("%T", x))
		}
	case *ssa.Next:
		it := w.get(fr, in.Iter)
		switch it := it.(type) {
		case *MapIter:
			if it.i < len(it.ents) {
				e := it.ents[it.i]
				it.i++
				w.set(fr, in, Tuple{w.tt.True, e.k, copyVal(e.v)})
			} else {
				w.set(fr, in, Tuple{w.tt.False, nil, nil})
			}
		case *StrIter:
			if it.i < len(it.s) {
				// byte-wise decoding is enough for ASCII; non-ASCII falls back to rune decoding
				r, sz := decodeRune(it.s[it.i:])
				w.set(fr, in, Tuple{w.tt.True, w.tt.BV(uint64(it.i), 64), w.tt.BV(uint64(r), 32)})
				it.i += sz
			} else {
				w.set(fr, in, Tuple{w.tt.False, w.tt.BV(0, 64), w.tt.BV(0, 32)})
			}
		}
	case *ssa.Defer:
		fv, args := w.prepareCall(fr, &in.Call)
		if w.mergeLvl > 0 {
			w.abort("mergefail", "defer in merge arm")
		}
		fr.defers = append(fr.defers, deferred{fv, args})
	case *ssa.RunDefers:
		for len(fr.defers) > 0 {
			d := fr.defers[len(fr.defers)-1]
			fr.defers = fr.defers[:len(fr.defers)-1]
			w.invokePrepared(d.fn, d.args, "defer")
		}
	case *ssa.Go:
		w.abort("unsupported", "go statement at %s", w.where())
	default:
		w.abort("unsupported", "instruction %T (%s) in %s", in, in, fr.fn)
	}
}

func decodeRune(s string) (rune, int) {
	for i, r := range s {
		_ = i
		n := len(string(r))
		if r == 0xFFFD {
			n = 1
		}
		return r, n
	}
	return 0, 0
}

// prepareCall resolves callee and arguments for call/defer.
// For builtins the returned fn is *ssa.Builtin; for invoke it is the resolved method with receiver prepended.
func (w *Worker) prepareCall(fr *Frame, c *ssa.CallCommon) (Value, []Value) {
	args := make([]Value, 0, len(c.Args)+1)
	var fv Value
	if c.IsInvoke() {
		recv := w.get(fr, c.Value).(Iface)
		if recv.T == nil {
			w.goPanic("method call on nil interface (" + c.Method.Name() + ")")
		}
		m := w.eng.lookupMethod(recv.T, c.Method)
		if m == nil {
			w.abort("unsupported", "method %s not found on %s", c.Method.Name(), recv.T)
		}
		fv = m
		args = append(args, recv.V)
	} else {
		fv = w.get(fr, c.Value)
	}
	for _, a := range c.Args {
		args = append(args, copyVal(w.get(fr, a)))
	}
	return fv, args
}

func (w *Worker) invokePrepared(fv Value, args []Value, site string) Value {
	if b, ok := fv.(*ssa.Builtin); ok {
		return w.builtin(b, args, nil)
	}
	return w.callValue(fv, args, site)
}

func (w *Worker) doCall(fr *Frame, c *ssa.CallCommon, pos token.Pos) Value {
	if b, ok := c.Value.(*ssa.Builtin); ok && !c.IsInvoke() {
		args := make([]Value, len(c.Args))
		for i, a := range c.Args {
			args[i] = w.get(fr, a)
		}
		return w.builtin(b, args, c)
	}
	fv, args := w.prepareCall(fr, c)
	return w.callValue(fv, args, fr.fn.Name())
}

func (w *Worker) unop(fr *Frame, in *ssa.UnOp) Value {
	x := w.get(fr, in.X)
	switch in.Op {
	case token.MUL: // load
		if sp, ok := x.(*symPtr); ok {
			return w.symLoad(sp)
		}
		p := x.(*Value)
		if p == nil {
			w.goPanic("nil pointer dereference (load) in " + fr.fn.Name())
		}
		return copyVal(*p)
	case token.NOT:
		return w.tt.Not(x.(*Term))
	case token.SUB:
		t := x.(*Term)
		if t.kind == KFP {
			return w.tt.FNeg(t)
		}
		return w.tt.Neg(t)
	case token.XOR:
		return w.tt.BNot(x.(*Term))
	}
	w.abort("unsupported", "unop %v", in.Op)
	return nil
}

func (w *Worker) shiftCount(y *Term, yt types.Type, width int) *Term {
	// returns count as BV(width); caller handles >= width via semantic of Go (result 0 / sign fill)
	if isSigned(yt) {
		w.checkPanic(w.tt.Cmp(OSlt, y, w.tt.BV(0, int(y.w))), "negative shift amount")
	}
	return y
}

func (w *Worker) binop(op token.Token, xt, yt types.Type, xv, yv Value) Value {
	tt := w.tt
	switch op {
	case token.EQL:
		return w.eqVal(xv, yv)
	case token.NEQ:
		return tt.Not(w.eqVal(xv, yv))
	}
	if xs, ok := xv.(string); ok {
		ys := yv.(string)
		switch op {
		case token.ADD:
			return xs + ys
		case token.LSS:
			return tt.Bool(xs < ys)
		case token.LEQ:
			return tt.Bool(xs <= ys)
		case token.GTR:
			return tt.Bool(xs > ys)
		case token.GEQ:
			return tt.Bool(xs >= ys)
		}
		w.abort("unsupported", "string op %v", op)
	}
	x, ok1 := xv.(*Term)
	y, ok2 := yv.(*Term)
	if !ok1 || !ok2 {
		w.abort("unsupported", "binop %v on %T,%T at %s", op, xv, yv, w.where())
	}
	if x.kind == KFP {
		switch op {
		case token.ADD:
			return tt.FBin(OFAdd, x, y)
		case token.SUB:
			return tt.FBin(OFSub, x, y)
		case token.MUL:
			return tt.FBin(OFMul, x, y)
		case token.QUO:
			return tt.FBin(OFDiv, x, y)
		case token.LSS:
			return tt.FCmp(OFLt, x, y)
		case token.LEQ:
			return tt.FCmp(OFLe, x, y)
		case token.GTR:
			return tt.FCmp(OFLt, y, x)
		case token.GEQ:
			return tt.FCmp(OFLe, y, x)
		}
		w.abort("unsupported", "float op %v", op)
	}
	if x.kind == KBool {
		switch op {
		case token.AND, token.LAND:
			return tt.And(x, y)
		case token.OR, token.LOR:
			return tt.Or(x, y)
		}
		w.abort("unsupported", "bool op %v", op)
	}
	signed := isSigned(xt)
	wd := int(x.w)
	switch op {
	case token.ADD:
		return tt.BinBV(OAdd, x, y)
	case token.SUB:
		return tt.BinBV(OSub, x, y)
	case token.MUL:
		return tt.BinBV(OMul, x, y)
	case token.QUO, token.REM:
		w.checkPanic(tt.Eq(y, tt.BV(0, wd)), "integer divide by zero")
		if signed {
			if op == token.QUO {
				return tt.BinBV(OSDiv, x, y)
			}
			return tt.BinBV(OSRem, x, y)
		}
		if op == token.QUO {
			return tt.BinBV(OUDiv, x, y)
		}
		return tt.BinBV(OURem, x, y)
	case token.AND:
		return tt.BinBV(OBAnd, x, y)
	case token.OR:
		return tt.BinBV(OBOr, x, y)
	case token.XOR:
		return tt.BinBV(OBXor, x, y)
	case token.AND_NOT:
		return tt.BinBV(OBAnd, x, tt.BNot(y))
	case token.SHL, token.SHR:
		y = w.shiftCount(y, yt, wd)
		// bring y to width wd, saturating
		var yy *Term
		var big *Term // y >= wd
		yw := int(y.w)
		if yw > wd {
			big = tt.Cmp(OUle, tt.BV(uint64(wd), yw), y)
			yy = tt.Extract(y, wd-1, 0)
		} else {
			yy = tt.Zext(y, wd)
			if wd >= 64 || uint64(wd) <= mask(yw) {
				big = tt.Cmp(OUle, tt.BV(uint64(wd), wd), yy)
			} else {
				big = tt.False
			}
		}
		if op == token.SHL {
			return tt.Ite(big, tt.BV(0, wd), tt.BinBV(OShl, x, yy))
		}
		if signed {
			return tt.Ite(big, tt.BinBV(OAshr, x, tt.BV(uint64(wd-1), wd)), tt.BinBV(OAshr, x, yy))
		}
		return tt.Ite(big, tt.BV(0, wd), tt.BinBV(OLshr, x, yy))
	case token.LSS:
		if signed {
			return tt.Cmp(OSlt, x, y)
		}
		return tt.Cmp(OUlt, x, y)
	case token.LEQ:
		if signed {
			return tt.Cmp(OSle, x, y)
		}
		return tt.Cmp(OUle, x, y)
	case token.GTR:
		if signed {
			return tt.Cmp(OSlt, y, x)
		}
		return tt.Cmp(OUlt, y, x)
	case token.GEQ:
		if signed {
			return tt.Cmp(OSle, y, x)
		}
		return tt.Cmp(OUle, y, x)
	}
	w.abort("unsupported", "binop %v", op)
	return nil
}

func (w *Worker) eqVal(a, b Value) *Term {
	tt := w.tt
	switch x := a.(type) {
	case *Term:
		y, ok := b.(*Term)
		if !ok {
			panic(fmt.Sprintf("eq: *Term vs %T", b))
		}
		return tt.Eq(x, y)
	case string:
		return tt.Bool(x == b.(string))
	case *Value:
		y, ok := b.(*Value)
		if !ok {
			if b == nil {
				return tt.Bool(x == nil)
			}
			panic(fmt.Sprintf("eq: ptr vs %T", b))
		}
		return tt.Bool(x == y)
	case Struct:
		y := b.(Struct)
		r := tt.True
		for i := range x {
			r = tt.And(r, w.eqVal(x[i], y[i]))
		}
		return r
	case Array:
		y := b.(Array)
		r := tt.True
		for i := range x {
			r = tt.And(r, w.eqVal(x[i], y[i]))
		}
		return r
	case Iface:
		y, ok := b.(Iface)
		if !ok {
			panic(fmt.Sprintf("eq: iface vs %T", b))
		}
		if x.T == nil || y.T == nil {
			return tt.Bool(x.T == nil && y.T == nil)
		}
		if !types.Identical(x.T, y.T) {
			return tt.False
		}
		return w.eqVal(x.V, y.V)
	case SliceV:
		// only comparison with nil is legal
		y := b.(SliceV)
		if y == nil {
			return tt.Bool(x == nil)
		}
		if x == nil {
			return tt.Bool(y == nil)
		}
	case *MapV:
		y := b.(*MapV)
		return tt.Bool(x == y)
	case *Closure:
		y, _ := b.(*Closure)
		if x == nil || (b != nil && y == nil) {
			return tt.Bool(x == nil && y == nil)
		}
	case *ssa.Function:
		if y, ok := b.(*Closure); ok && y == nil {
			return tt.False
		}
	case nil:
		switch y := b.(type) {
		case nil:
			return tt.True
		case *Value:
			return tt.Bool(y == nil)
		case Iface:
			return tt.Bool(y.T == nil)
		}
	}
	w.abort("unsupported", "comparison of %T and %T at %s", a, b, w.where())
	return nil
}

func (w *Worker) convert(from, to types.Type, v Value) Value {
	tt := w.tt
	fu, tu := from.Underlying(), to.Underlying()
	if t, ok := v.(*Term); ok {
		tb, ok := tu.(*types.Basic)
		if !ok {
			w.abort("unsupported", "convert scalar to %v", to)
		}
		switch {
		case tb.Info()&types.IsInteger != 0:
			wd := intWidth(tb)
			if t.kind == KFP {
				return tt.FToInt(t, wd, tb.Info()&types.IsUnsigned == 0)
			}
			sw := int(t.w)
			switch {
			case wd == sw:
				return t
			case wd < sw:
				return tt.Extract(t, wd-1, 0)
			default:
				if isSigned(from) {
					return tt.Sext(t, wd)
				}
				return tt.Zext(t, wd)
			}
		case tb.Info()&types.IsFloat != 0:
			if t.kind == KFP {
				if tb.Kind() == types.Float32 {
					w.abort("unsupported", "float32")
				}
				return t
			}
			return tt.IntToF(t, isSigned(from))
		case tb.Info()&types.IsString != 0:
			// string(rune)
			c := w.concretize(t, "string(rune)")
			return string(rune(c))
		case tb.Kind() == types.UnsafePointer:
			w.abort("unsupported", "unsafe pointer conversion")
		}
		w.abort("unsupported", "convert %v -> %v", from, to)
	}
	switch x := v.(type) {
	case string:
		if sl, ok := tu.(*types.Slice); ok {
			if eb, ok := sl.Elem().Underlying().(*types.Basic); ok && eb.Kind() == types.Uint8 {
				s := make(SliceV, len(x))
				for i := 0; i < len(x); i++ {
					s[i] = tt.BV(uint64(x[i]), 8)
				}
				return s
			}
			if eb, ok := sl.Elem().Underlying().(*types.Basic); ok && eb.Kind() == types.Int32 {
				var s SliceV
				for _, r := range x {
					s = append(s, tt.BV(uint64(r), 32))
				}
				return s
			}
		}
		if isString(to) {
			return x
		}
	case SliceV:
		if isString(to) {
			bs := make([]byte, len(x))
			nsym := 0
			for _, e := range x {
				if !e.(*Term).IsConst() {
					nsym++
				}
			}
			if nsym > 2 {
				// every symbolic byte would be enumerated over its 256 values: 256^n paths
				w.abort("unsupported", "string conversion of %d symbolic bytes at %s", nsym, w.where())
			}
			for i, e := range x {
				bs[i] = byte(w.concretize(e.(*Term), "string([]byte)"))
			}
			return string(bs)
		}
		if _, ok := tu.(*types.Slice); ok {
			return x
		}
	case *Value:
		if _, ok := tu.(*types.Pointer); ok {
			return x
		}
	}
	_ = fu
	w.abort("unsupported", "convert %v -> %v (%T) at %s", from, to, v, w.where())
	return nil
}

func (w *Worker) slice(fr *Frame, in *ssa.Slice) Value {
	x := w.get(fr, in.X)
	var base SliceV // full capacity view starting at element 0 of x
	var ln, cp int
	isStr := false
	var str string
	switch x := x.(type) {
	case SliceV:
		base = x[:cap(x)]
		ln, cp = len(x), cap(x)
		if x == nil {
			base = nil
		}
	case *Value: // *array
		if x == nil {
			w.goPanic("slice of nil array pointer")
		}
		a := (*x).(Array)
		base = SliceV(a)
		ln, cp = len(a), len(a)
	case string:
		isStr = true
		str = x
		ln, cp = len(x), len(x)
	default:
		panic(fmt.Sprintf("slice of %T", x))
	}
	lo, hi, max := 0, ln, cp
	if in.Low != nil {
		lo = w.boundedIndex(w.get(fr, in.Low).(*Term), cp, "slice low")
	}
	if in.High != nil {
		hi = w.boundedIndex(w.get(fr, in.High).(*Term), cp, "slice high")
	}
	if in.Max != nil {
		max = w.boundedIndex(w.get(fr, in.Max).(*Term), cp, "slice max")
	}
	if isStr {
		if lo > hi || hi > ln {
			w.goPanic(fmt.Sprintf("slice bounds out of range [%d:%d] with length %d", lo, hi, ln))
		}
		return str[lo:hi]
	}
	if lo < 0 || lo > hi || hi > max || max > cp {
		w.goPanic(fmt.Sprintf("slice bounds out of range [%d:%d:%d] with capacity %d in %s", lo, hi, max, cp, fr.fn.Name()))
	}
	if base == nil {
		return SliceV(nil)
	}
	return base[lo:hi:max]
}

// boundedIndex concretises an index used for slicing. Values outside [0,limit] are represented by one
// out-of-range representative (the operation panics identically for all of them).
func (w *Worker) boundedIndex(t *Term, limit int, what string) int {
	if t.IsConst() {
		return int(sext64(t.val, int(t.w)))
	}
	tt := w.tt
	oob := tt.Or(tt.Cmp(OSlt, t, tt.BV(0, int(t.w))), tt.Cmp(OSlt, tt.BV(uint64(limit), int(t.w)), t))
	if w.branch(oob) {
		return limit + 1 // any out-of-range value: caller panics
	}
	return int(w.concretize(t, what))
}

func (w *Worker) indexAddr(fr *Frame, in *ssa.IndexAddr) Value {
	x := w.get(fr, in.X)
	var elems []Value
	switch x := x.(type) {
	case SliceV:
		elems = x
	case *Value:
		if x == nil {
			w.goPanic("index of nil array pointer")
		}
		elems = (*x).(Array)
	default:
		panic(fmt.Sprintf("IndexAddr on %T", x))
	}
	it := w.get(fr, in.Index).(*Term)
	if it.IsConst() {
		i := sext64(it.val, int(it.w))
		if i < 0 || i >= int64(len(elems)) {
			w.goPanic(fmt.Sprintf("index out of range [%d] with length %d in %s", i, len(elems), fr.fn.Name()))
		}
		return &elems[i]
	}
	// symbolic index
	tt := w.tt
	wd := int(it.w)
	var oob *Term
	if wd < 64 && uint64(len(elems)) > mask(wd) {
		oob = tt.False // the index type cannot reach the length
	} else if isSigned(in.Index.Type()) {
		oob = tt.Or(tt.Cmp(OSlt, it, tt.BV(0, wd)), tt.Cmp(OSle, tt.BV(uint64(len(elems)), wd), it))
	} else {
		oob = tt.Cmp(OUle, tt.BV(uint64(len(elems)), wd), it)
	}
	w.checkPanic(oob, "index out of range (symbolic index) in "+fr.fn.Name())
	if len(elems) == 0 {
		w.abort("infeasible", "index into empty")
	}
	return &symPtr{elems: elems, idx: it}
}

// symPtr is the address of elems[idx] for a symbolic in-range idx.
type symPtr struct {
	elems []Value
	idx   *Term
}

func (w *Worker) symLoad(sp *symPtr) Value {
	tt := w.tt
	n := len(sp.elems)
	wd := int(sp.idx.w)
	if _, ok := sp.elems[0].(*Term); !ok {
		// non-scalar elements: concretise
		i := w.concretize(sp.idx, "symbolic index of non-scalar")
		return copyVal(sp.elems[i])
	}
	// balanced ite tree over index bits when n is a power of two and elements are scalars
	if n&(n-1) == 0 && n > 1 {
		k := 0
		for 1<<uint(k) < n {
			k++
		}
		var build func(lo, bit int) *Term
		build = func(lo, bit int) *Term {
			if bit < 0 {
				return sp.elems[lo].(*Term)
			}
			c := tt.Eq(tt.Extract(sp.idx, bit, bit), tt.BV(1, 1))
			return tt.Ite(c, build(lo+(1<<uint(bit)), bit-1), build(lo, bit-1))
		}
		return build(0, k-1)
	}
	r := sp.elems[n-1].(*Term)
	for i := n - 2; i >= 0; i-- {
		r = tt.Ite(tt.Eq(sp.idx, tt.BV(uint64(i), wd)), sp.elems[i].(*Term), r)
	}
	return r
}

func (w *Worker) symStore(sp *symPtr, v Value) {
	tt := w.tt
	nv, ok := v.(*Term)
	if !ok {
		i := w.concretize(sp.idx, "symbolic index store of non-scalar")
		w.storeInto(&sp.elems[i], v)
		return
	}
	wd := int(sp.idx.w)
	for i := range sp.elems {
		old := sp.elems[i].(*Term)
		w.setSlot(&sp.elems[i], tt.Ite(tt.Eq(sp.idx, tt.BV(uint64(i), wd)), nv, old))
	}
}

func (w *Worker) index(fr *Frame, in *ssa.Index) Value {
	x := w.get(fr, in.X)
	it := w.get(fr, in.Index).(*Term)
	switch x := x.(type) {
	case Array:
		if it.IsConst() {
			i := sext64(it.val, int(it.w))
			if i < 0 || i >= int64(len(x)) {
				w.goPanic("index out of range")
			}
			return copyVal(x[i])
		}
		if int(it.w) >= 64 || uint64(len(x)) <= mask(int(it.w)) {
			oob := w.tt.Cmp(OUle, w.tt.BV(uint64(len(x)), int(it.w)), it)
			w.checkPanic(oob, "index out of range (symbolic)")
		}
		return w.symLoad(&symPtr{elems: x, idx: it})
	case string:
		i := w.concretize(it, "string index")
		if i < 0 || i >= int64(len(x)) {
			w.goPanic("string index out of range")
		}
		return w.tt.BV(uint64(x[i]), 8)
	}
	panic(fmt.Sprintf("Index on %T", x))
}

// ---------------- maps ----------------

func (w *Worker) keyEq(a, b Value) *Term { return w.eqVal(a, b) }

func (w *Worker) mapFind(m *MapV, k Value) *mapEnt {
	if m == nil {
		return nil
	}
	for _, e := range m.ents {
		if w.branch(w.keyEq(e.k, k)) {
			return e
		}
	}
	return nil
}

func (w *Worker) mapSet(m *MapV, k, v Value) {
	if e := w.mapFind(m, k); e != nil {
		if w.journalOn {
			w.abort("mergefail", "map update in merge arm")
		}
		e.v = v
		return
	}
	if w.journalOn {
		w.abort("mergefail", "map insert in merge arm")
	}
	m.ents = append(m.ents, &mapEnt{k, v})
}

func (w *Worker) mapDelete(m *MapV, k Value) {
	if m == nil {
		return
	}
	if w.journalOn {
		w.abort("mergefail", "map delete in merge arm")
	}
	for i, e := range m.ents {
		if w.branch(w.keyEq(e.k, k)) {
			m.ents = append(append([]*mapEnt{}, m.ents[:i]...), m.ents[i+1:]...)
			return
		}
	}
}

func (w *Worker) lookup(fr *Frame, in *ssa.Lookup) Value {
	x := w.get(fr, in.X)
	switch x := x.(type) {
	case *MapV:
		k := w.get(fr, in.Index)
		vt := in.X.Type().Underlying().(*types.Map).Elem()
		e := w.mapFind(x, k)
		var v Value
		if e != nil {
			v = copyVal(e.v)
		} else {
			v = w.zero(vt)
		}
		if in.CommaOk {
			return Tuple{v, w.tt.Bool(e != nil)}
		}
		return v
	case string:
		i := w.concretize(w.get(fr, in.Index).(*Term), "string index")
		if i < 0 || i >= int64(len(x)) {
			w.goPanic("string index out of range")
		}
		return w.tt.BV(uint64(x[i]), 8)
	}
	panic(fmt.Sprintf("Lookup on %T", x))
}

// ---------------- type assertions ----------------

func (w *Worker) typeAssert(in *ssa.TypeAssert, xv Value) Value {
	x := xv.(Iface)
	var ok bool
	var res Value
	if it, isIface := in.AssertedType.Underlying().(*types.Interface); isIface {
		if x.T != nil && types.Implements(x.T, it) {
			ok = true
			res = x
		} else {
			res = Iface{}
		}
	} else {
		if x.T != nil && types.Identical(x.T, in.AssertedType) {
			ok = true
			res = x.V
		} else {
			res = w.zero(in.AssertedType)
		}
	}
	if in.CommaOk {
		return Tuple{res, w.tt.Bool(ok)}
	}
	if !ok {
		w.goPanic(fmt.Sprintf("interface conversion: %v is not %v", x.T, in.AssertedType))
	}
	return res
}

// ---------------- builtins ----------------

func (w *Worker) builtin(b *ssa.Builtin, args []Value, c *ssa.CallCommon) Value {
	tt := w.tt
	switch b.Name() {
	case "len":
		switch x := args[0].(type) {
		case SliceV:
			return tt.BV(uint64(len(x)), 64)
		case string:
			return tt.BV(uint64(len(x)), 64)
		case *MapV:
			if x == nil {
				return tt.BV(0, 64)
			}
			return tt.BV(uint64(len(x.ents)), 64)
		case Array:
			return tt.BV(uint64(len(x)), 64)
		case *Value:
			if x != nil {
				if a, ok := (*x).(Array); ok {
					return tt.BV(uint64(len(a)), 64)
				}
			}
		}
	case "cap":
		switch x := args[0].(type) {
		case SliceV:
			return tt.BV(uint64(cap(x)), 64)
		case Array:
			return tt.BV(uint64(len(x)), 64)
		}
	case "append":
		dst := args[0].(SliceV)
		switch src := args[1].(type) {
		case SliceV:
			return w.appendVals(dst, src)
		case string:
			s := make(SliceV, len(src))
			for i := 0; i < len(src); i++ {
				s[i] = tt.BV(uint64(src[i]), 8)
			}
			return w.appendVals(dst, s)
		}
	case "copy":
		dst := args[0].(SliceV)
		var src SliceV
		switch s := args[1].(type) {
		case SliceV:
			src = s
		case string:
			src = make(SliceV, len(s))
			for i := 0; i < len(s); i++ {
				src[i] = tt.BV(uint64(s[i]), 8)
			}
		}
		n := len(dst)
		if len(src) < n {
			n = len(src)
		}
		// memmove semantics
		tmp := make([]Value, n)
		for i := 0; i < n; i++ {
			tmp[i] = copyVal(src[i])
		}
		for i := 0; i < n; i++ {
			w.storeInto(&dst[i], tmp[i])
		}
		return tt.BV(uint64(n), 64)
	case "delete":
		w.mapDelete(args[0].(*MapV), args[1])
		return nil
	case "panic":
		w.goPanic("explicit panic: " + w.descValue(args[0]))
	case "print", "println":
		return nil
	case "min", "max":
		r := args[0].(*Term)
		signed := c != nil && isSigned(c.Args[0].Type())
		for _, a := range args[1:] {
			y := a.(*Term)
			var lt *Term
			if signed {
				lt = tt.Cmp(OSlt, y, r)
			} else {
				lt = tt.Cmp(OUlt, y, r)
			}
			if b.Name() == "max" {
				lt = tt.Not(tt.Or(lt, tt.Eq(y, r)))
			}
			r = tt.Ite(lt, y, r)
		}
		return r
	case "ssa:wrapnilchk":
		if p, ok := args[0].(*Value); ok && p == nil {
			w.goPanic("value method called on nil pointer")
		}
		return args[0]
	case "recover":
		return Iface{}
	}
	w.abort("unsupported", "builtin %s(%T...)", b.Name(), args[0])
	return nil
}

func (w *Worker) appendVals(dst, src SliceV) SliceV {
	n := len(dst) + len(src)
	if n <= cap(dst) {
		out := dst[:n]
		for i := range src {
			w.storeInto(&out[len(dst)+i], copyVal(src[i]))
		}
		return out
	}
	nc := 2 * cap(dst)
	if nc < n {
		nc = n
	}
	if nc < 4 {
		nc = 4
	}
	out := make(SliceV, n, nc)
	for i := range dst {
		out[i] = copyVal(dst[i])
	}
	for i := range src {
		out[len(dst)+i] = copyVal(src[i])
	}
	// spare capacity holds zero values of the element kind (taken from an existing element when possible)
	if n > 0 {
		var z Value
		switch e := out[0].(type) {
		case *Term:
			switch e.kind {
			case KBool:
				z = w.tt.False
			case KBV:
				z = w.tt.BV(0, int(e.w))
			default:
				z = w.tt.FP(0)
			}
		case *Value:
			z = (*Value)(nil)
		}
		if z != nil {
			full := out[:nc]
			for i := n; i < nc; i++ {
				full[i] = z
			}
		} else {
			out = out[:n:n]
		}
	}
	return out
}
