package main

func propTable() map[string]PropSpec {
	t := map[string]PropSpec{}
	t["C10"] = PropSpec{
		ID: "C10",
		Quick: []TaskSpec{
			{Harness: "HarnessC10Step", Reach: []string{"C10.step.end"}},
		},
		Bounds: map[string]string{"quick": "all 2^32 states x 2^8 bytes (one symbolic step)"},
	}
	return t
}
