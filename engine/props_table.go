package main

func c11Args(level int64) [][]int64 {
	var a [][]int64
	a = append(a, []int64{1, 0, level})
	for afc := int64(2); afc <= 3; afc++ {
		for f := int64(0); f < 32; f++ {
			a = append(a, []int64{afc, f, level})
		}
	}
	return a
}

func propTable() map[string]PropSpec {
	t := map[string]PropSpec{}
	t["C10"] = PropSpec{
		ID: "C10",
		Quick: []TaskSpec{
			{Harness: "HarnessC10Step", Reach: []string{"C10.step.end"}},
		},
		Bounds: map[string]string{"quick": "all 2^32 states x 2^8 bytes (one symbolic step)"},
	}
	c11 := func(level int64) []TaskSpec {
		return []TaskSpec{
			{Harness: "HarnessC11HeaderParse", Reach: []string{"C11.hdr.parse.end"}},
			{Harness: "HarnessC11HeaderWrite", Reach: []string{"C11.hdr.write.end"}},
			{Harness: "HarnessC11PCR", Reach: []string{"C11.pcr.end"}},
			{Harness: "HarnessC11ZeroLenAF"},
			{Harness: "HarnessC11Parse", ArgSets: c11Args(level), Reach: []string{"C11.parse.end"}},
			{Harness: "HarnessC11Write", ArgSets: c11Args(level), Reach: []string{"C11.write.end"}},
			{Harness: "HarnessC11RoundTrip", ArgSets: c11Args(level), Reach: []string{"C11.rt.end"}},
		}
	}
	t["C11"] = PropSpec{
		ID: "C11", Quick: c11(0), Thorough: c11(1),
		Bounds: map[string]string{
			"quick":    "one 188-byte packet; adaptation_field_control in {01,10,11}; all 2^5 optional-part subsets x all 2^3 extension subsets; private data length in {0,2,16}; stuffing in {0,1,fill}; every field value symbolic (header 2^24, PCR/OPCR 2^42 each, DTS 2^33, ...); adaptation_field_length 0 separately",
			"thorough": "as quick with private data length in {0,1,2,3,16,40} and stuffing in {0,1,2,7,fill}",
		},
		Outside: "private data lengths and stuffing amounts not listed; packets larger than 188 bytes (C08)",
	}
	c12Args := func(level int64, write bool) [][]int64 {
		var a [][]int64
		for _, pd := range []int64{0, 2, 3} {
			for f := int64(0); f < 64; f++ {
				if write && f&2 != 0 {
					continue
				}
				a = append(a, []int64{0, pd, f, level})
			}
		}
		a = append(a, []int64{1, 0, 0, level}, []int64{2, 0, 0, level})
		return a
	}
	c12 := func(level int64) []TaskSpec {
		bounds := [][]int64{{0, 0, 0, level}, {0, 2, 0, level}, {0, 3, 63, level}, {0, 2, 1, level}, {1, 0, 0, level}, {2, 0, 0, level}}
		return []TaskSpec{
			{Harness: "HarnessC12Timestamps", Reach: []string{"C12.ts.end"}},
			{Harness: "HarnessC12Trick", Reach: []string{"C12.trick.end"}},
			{Harness: "HarnessC12Duration", Solver: "cvc5-int", Reach: []string{"C12.duration.end"}, Workers: 1},
			{Harness: "HarnessC12Parse", ArgSets: c12Args(level, false), Reach: []string{"C12.parse.end"}},
			{Harness: "HarnessC12Bounds", ArgSets: bounds, Reach: []string{"C12.parse.end", "C12.parse.longer.end", "C12.parse.inheader.end"}},
			{Harness: "HarnessC12Write", ArgSets: c12Args(level, true), Reach: []string{"C12.write.end"}},
		}
	}
	t["C12"] = PropSpec{
		ID: "C12", Quick: c12(0), Thorough: c12(1),
		Bounds: map[string]string{
			"quick":    "one PES packet: stream id symbolic (with optional header) / 0xBE / 0xBF; PTS_DTS_flags in {00,10,11} x all 2^6 flag subsets with extension subsets {none, all}, and all 2^5 extension subsets for flag sets {ext only, all, all but CRC}; extension-2 length in {0,2}; header stuffing in {0,5}; payload 5 bytes; PES_packet_length 0/exact; bounds harness: shorter by 1..7, longer by {1,2,300}, ending inside the header; all field values symbolic (timestamps 2^33, ESCR 2^42, ES rate 2^22, all 256 trick bytes, CRC 2^16); Duration(): all base<2^33, ext<2^9",
			"thorough": "full cross product of flag subsets and extension subsets; extension-2 length in {0,1,2,64,127}, header stuffing in {0,1,5,32}, bounds payload 12 bytes",
		},
		Outside: "PTS_DTS_flags '01' (forbidden by ISO); pack_header contents (pack_field_length > 0): the library stores only the length byte; writer: previous_PES_packet_CRC and pack header are not supported by the library and not claimed",
		Assumptions: []string{"Duration() is decided by cvc5 --solve-bv-as-int=sum (64-bit multiply/divide by constants)"},
	}
	return t
}
