package main

func c11Args(level int64) [][]int64 {
	var a [][]int64
	a = append(a, []int64{1, 0, level})
	for afc := int64(2); afc <= 3; afc++ {
		for f := int64(0); f < 32; f++ {
			a = append(a, []int64{afc, f, level})
		}
	}
	return a
}

func propTable() map[string]PropSpec {
	t := map[string]PropSpec{}
	c10 := func(th bool) []TaskSpec {
		n := int64(8)
		if th {
			n = 32
		}
		ts := []TaskSpec{
			{Harness: "HarnessC10Table", Reach: []string{"C10.table.end"}},
			{Harness: "HarnessC10Step", Reach: []string{"C10.step.end"}},
			{Harness: "HarnessC10Init", ArgSets: [][]int64{{0}, {1}, {n}}, Reach: []string{"C10.init.end"}},
			{Harness: "HarnessC10Chunk", ArgSets: [][]int64{{1}, {2}, {n}, {16}, {24}, {40}}, Reach: []string{"C10.chunk.end"}},
			{Harness: "HarnessC10Sparse", ArgSets: [][]int64{{16, 0}, {16, 8}, {24, 4}, {24, 8}, {40, 16}, {40, 30}, {9, 2}}, Reach: []string{"C10.sparse.end"}},
			{Harness: "HarnessC10Residue", Reach: []string{"C10.residue.end"}},
			{Harness: "HarnessC10Full", ArgSets: [][]int64{{0}, {1}}, Reach: []string{"C10.full.end"}},
		}
		return ts
	}
	t["C10"] = PropSpec{
		ID: "C10", Quick: c10(false), Thorough: c10(true),
		Bounds: map[string]string{
			"quick":    "all 256 table entries (symbolic index); one update step for all 2^32 states x 2^8 bytes against the bit-serial shift register (the inductive step: the loop body is the only state transformer); initial value / no final XOR; splitting at every point and byte-wise feeding for messages of 8, 16, 24 and 40 symbolic bytes from an arbitrary state (long enough for a block-wise fast path to be entered); messages of 9..40 bytes that are zero except for 4 arbitrary bytes at several offsets, from an arbitrary state (64 symbolic bits: zero runs and words equal to the running state are where block-wise code takes shortcuts); residue 0 for every state; whole-message equivalence with the bit-serial reference for all messages of length 0 and 1",
			"thorough": "chunking with 32 symbolic bytes",
		},
		Outside: "whole-message equivalence for 2 or more symbolic bytes in one query (solver-hard); it follows from table+step+init by induction on the length, which is an argument, not a solver result",
	}
	c11 := func(level int64) []TaskSpec {
		return []TaskSpec{
			{Harness: "HarnessC11HeaderParse", Reach: []string{"C11.hdr.parse.end"}},
			{Harness: "HarnessC11HeaderWrite", Reach: []string{"C11.hdr.write.end"}},
			{Harness: "HarnessC11PCR", Reach: []string{"C11.pcr.end"}},
			{Harness: "HarnessC11ZeroLenAF"},
			{Harness: "HarnessC11Parse", ArgSets: c11Args(level), Reach: []string{"C11.parse.end"}},
			{Harness: "HarnessC11Write", ArgSets: c11Args(level), Reach: []string{"C11.write.end"}},
			{Harness: "HarnessC11RoundTrip", ArgSets: c11Args(level), Reach: []string{"C11.rt.end"}},
			{Harness: "HarnessC11RoundTripLater", ArgSets: [][]int64{{0}, {2}, {18}, {31}}, Reach: []string{"C11.later.end"}},
		}
	}
	t["C11"] = PropSpec{
		ID: "C11", Quick: c11(0), Thorough: c11(1),
		Bounds: map[string]string{
			"quick":    "one 188-byte packet; adaptation_field_control in {01,10,11}; all 2^5 optional-part subsets x all 2^3 extension subsets; private data length in {0,2,16}; stuffing in {0,1,fill}; every field value symbolic (header 2^24, PCR/OPCR 2^42 each, DTS 2^33, ...); adaptation_field_length 0 separately",
			"thorough": "as quick with private data length in {0,1,2,3,16,40} and stuffing in {0,1,2,7,fill}",
		},
		Outside: "private data lengths and stuffing amounts not listed; packets larger than 188 bytes (C08)",
	}
	c12Args := func(level int64, write bool) [][]int64 {
		var a [][]int64
		for _, pd := range []int64{0, 2, 3} {
			for f := int64(0); f < 64; f++ {
				if write && f&2 != 0 {
					continue
				}
				a = append(a, []int64{0, pd, f, level})
			}
		}
		a = append(a, []int64{1, 0, 0, level}, []int64{2, 0, 0, level})
		return a
	}
	c12 := func(level int64) []TaskSpec {
		bounds := [][]int64{{0, 0, 0, level}, {0, 2, 0, level}, {0, 3, 63, level}, {0, 2, 1, level}, {1, 0, 0, level}, {2, 0, 0, level}}
		return []TaskSpec{
			{Harness: "HarnessC12Timestamps", Reach: []string{"C12.ts.end"}},
			{Harness: "HarnessC12Trick", Reach: []string{"C12.trick.end"}},
			{Harness: "HarnessC12Duration", Solver: "cvc5-int", Reach: []string{"C12.duration.end"}, Workers: 1},
			{Harness: "HarnessC12Parse", ArgSets: c12Args(level, false), Reach: []string{"C12.parse.end"}},
			{Harness: "HarnessC12Bounds", ArgSets: bounds, Reach: []string{"C12.parse.end", "C12.parse.longer.end", "C12.parse.inheader.end"}},
			{Harness: "HarnessC12Write", ArgSets: c12Args(level, true), Reach: []string{"C12.write.end"}},
			{Harness: "HarnessC02PES", ArgSets: [][]int64{{10, 1, 0}, {0, 0, 0}, {200, 1, 1}}, Reach: []string{"C02.pes.end"}, Asserts: []string{"C12."}},
		}
	}
	t["C12"] = PropSpec{
		ID: "C12", Quick: c12(0), Thorough: c12(1),
		Bounds: map[string]string{
			"quick":    "one PES packet: stream id symbolic (with optional header) / 0xBE / 0xBF; PTS_DTS_flags in {00,10,11} x all 2^6 flag subsets with extension subsets {none, all}, and all 2^5 extension subsets for flag sets {ext only, all, all but CRC}; extension-2 length in {0,2}; header stuffing in {0,5}; payload 5 bytes; PES_packet_length 0/exact; bounds harness: shorter by 1..7, longer by {1,2,300}, ending inside the header; all field values symbolic (timestamps 2^33, ESCR 2^42, ES rate 2^22, all 256 trick bytes, CRC 2^16); Duration(): all base<2^33, ext<2^9; through the Demuxer: a PES unit (0/10/200 payload bytes) whose bytes are split over TS packets at every point (first packet carrying 1, 2, ... bytes of the start code) is still recognised and decoded",
			"thorough": "full cross product of flag subsets and extension subsets; extension-2 length in {0,1,2,64,127}, header stuffing in {0,1,5,32}, bounds payload 12 bytes",
		},
		Outside:     "PTS_DTS_flags '01' (forbidden by ISO); pack_header contents (pack_field_length > 0): the library stores only the length byte; writer: previous_PES_packet_CRC and pack header are not supported by the library and not claimed",
		Assumptions: []string{"Duration() is decided by cvc5 --solve-bv-as-int=sum (64-bit multiply/divide by constants)"},
	}
	c15 := func(thorough bool) []TaskSpec {
		var hours, parse, write [][]int64
		if thorough {
			// hh:mm writer: every hour 0..99; hh:mm:ss writer (the expensive one: 2-4 min per hour): hours 0..23 and 99
			for h := int64(0); h < 100; h++ {
				hours = append(hours, []int64{1, h, -1})
				if h < 24 || h == 99 {
					hours = append(hours, []int64{0, h, -1})
				}
			}
			for lo := int64(15079); lo <= 65535; lo += 2048 {
				hi := lo + 2047
				if hi > 65535 {
					hi = 65535
				}
				for w := int64(0); w < 3; w++ {
					parse = append(parse, []int64{lo, hi, w})
				}
			}
			for y := int64(1900); y <= 2038; y += 8 {
				hi := y + 7
				if hi > 2038 {
					hi = 2038
				}
				write = append(write, []int64{y, hi})
			}
		} else {
			for _, h := range []int64{0, 9, 10, 23, 99} {
				hours = append(hours, []int64{1, h, -1})
			}
			hours = append(hours, []int64{0, 0, 0}, []int64{0, 9, 59}, []int64{0, 10, 30}, []int64{0, 23, 59}, []int64{0, 99, 59})
			// chunks containing 1900-03-01, 2000-02-29/03-01, 2038-04-22 and the 14/15-month branch of Annex C
			for _, lo := range []int64{15079, 51544 - 100, 65535 - 255, 40587 - 128} {
				for w := int64(0); w < 3; w++ {
					parse = append(parse, []int64{lo, lo + 255, w})
				}
			}
			write = [][]int64{{1900, 1904}, {1999, 2001}, {2036, 2038}}
		}
		return []TaskSpec{
			{Harness: "HarnessC15BCDByte", Reach: []string{"C15.bcd.end"}},
			{Harness: "HarnessC15DurParse", Solver: "cvc5-int", Reach: []string{"C15.dur.parse.end"}, Workers: 1},
			{Harness: "HarnessC15RawPanicFree", Reach: []string{"C15.raw.end"}},
			{Harness: "HarnessC15DurWrite", ArgSets: hours, Solver: "cvc5", TimeoutMs: 600000, Reach: []string{"C15.dur.write.end"}, Workers: 1},
			{Harness: "HarnessC15DateParse", ArgSets: parse, Solver: "cvc5", TimeoutMs: 600000, Reach: []string{"C15.date.parse.end"}, Workers: 1},
			{Harness: "HarnessC15DateWrite", ArgSets: write, Solver: "cvc5", TimeoutMs: 600000, Reach: []string{"C15.date.write.end"}},
			{Harness: "HarnessC15Through", ArgSets: [][]int64{{0}, {1}, {2}, {3}}, Reach: []string{"C15.through.end"}},
		}
	}
	t["C15"] = PropSpec{
		ID: "C15", Quick: c15(false), Thorough: c15(true),
		Bounds: map[string]string{
			"quick":    "BCD: all 2^8 bytes, all 2^16/2^24 raw duration patterns; duration writers: hh:mm writer for hours in {0,9,10,23,99} x all minutes, seconds and sub-second fractions (2^30); hh:mm:ss writer for (hour,minute) in {(0,0),(9,59),(10,30),(23,59),(99,59)} x all seconds and fractions; date decode: 4 MJD chunks of 256 values containing 1900-03-01, 2000-02-29, 2038-04-22 and 1970-01-01 x all BCD times of day; date encode: years 1900-1904, 1999-2001, 2036-2038, every day, 3 times of day; all 2^40 raw patterns for panic-freedom; pass-through: EIT start_time/duration, TOT UTC_time and the local time offset descriptor (input: every 40/24/16-bit pattern; output: every date and offset) hand their fields to these kernels unchanged",
			"thorough": "duration writers: hh:mm for all hours 0..99, hh:mm:ss for hours 0..23 and 99 (all minutes, seconds, fractions); date decode: all MJD 15079..65535 (25 chunks); date encode: all years 1900..2038",
		},
		Outside:     "non-UTC locations; normalisation inside time.Date (std); dates before 1900-03-01 (outside the property)",
		Assumptions: []string{"time.Time stub: (Y,M,D,ns-of-day) tuple, UTC, arguments of time.Date already normalised (true for every input in the domain: 1<=M<=12, 1<=D<=days(Y,M), time of day < 24h)", "floating point is encoded exactly (SMT FloatingPoint theory, RNE, RTZ conversions) and decided by cvc5 on domain chunks", "reference civil<->MJD conversion uses 4-year cycles of 1461 days (valid 1900-03-01..2100-02-28)"},
	}
	c14 := func(level int64) []TaskSpec {
		var kinds, loops, skips [][]int64
		for i := int64(0); i < 25; i++ {
			kinds = append(kinds, []int64{i, level})
		}
		loops = [][]int64{{0, 0, 0, 0}, {18, 0, 0, 1}, {24, 18, 0, 2}, {8, 23, 10, 3}, {16, 2, 18, 3}, {1, 13, 4, 3}}
		if level > 0 {
			loops = append(loops, [][]int64{{21, 18, 0, 2}, {6, 17, 15, 3}, {3, 12, 19, 3}, {20, 22, 11, 3}, {5, 7, 14, 3}, {9, 18, 24, 3}}...)
		}
		maxL := int64(6)
		if level > 0 {
			maxL = 10
		}
		for l := int64(0); l <= maxL; l++ {
			skips = append(skips, []int64{l})
		}
		return []TaskSpec{
			{Harness: "HarnessC14Desc", ArgSets: kinds, Reach: []string{"C14.desc.end"}},
			{Harness: "HarnessC14Loop", ArgSets: loops, Reach: []string{"C14.loop.end"}},
			{Harness: "HarnessC14LoopBig", ArgSets: [][]int64{{253, 1}, {254, 1}, {255, 1}, {255, 2}, {250, 3}}, Reach: []string{"C14.loopbig.end"}},
			{Harness: "HarnessC14Skip", ArgSets: skips, Reach: []string{"C14.skip.ok"}, MaxPaths: 200000},
			{Harness: "HarnessC14LangLen", ArgSets: cross(ints(2, 6, 7, 8, 9, 12, 17, 19, 20, 22), ints(0, 2, 4)), Reach: []string{"C14.langlen.end"}, Asserts: []string{"C14."}},
		}
	}
	t["C14"] = PropSpec{
		ID: "C14", Quick: c14(0), Thorough: c14(1),
		Bounds: map[string]string{
			"quick":    "each of the 23 typed descriptors + unknown tag + user-defined tag: all scalar fields and flags symbolic, item counts 0..2, variable byte fields of length {0,1,3}, struct Length field arbitrary (8 bits); local-time-offset items use concrete times/offsets (C15 covers the time kernels); loops of 0..3 descriptors of mixed kinds (6 combinations); input side: first descriptor with any tag (2^8) and declared length 0..6 with arbitrary body, followed by a marker descriptor",
			"thorough": "item counts 0..4, byte fields {0,1,2,3,8}, 12 loop combinations, declared length 0..10",
		},
		Outside: "variable parts longer than listed (up to 255); reserved bit values in descriptors are not compared (don't-care mask)",
	}
	c13 := func(level int64) []TaskSpec {
		var dec, enc [][]int64
		counts := map[int64][]int64{0: {0, 1, 4}, 1: {0, 1, 3}, 2: {0, 1, 2}, 3: {0, 1, 2}, 4: {0, 1, 2}, 5: {0}}
		if level > 0 {
			counts = map[int64][]int64{0: {0, 1, 2, 4, 16}, 1: {0, 1, 2, 3, 6}, 2: {0, 1, 2, 4}, 3: {0, 1, 2, 4}, 4: {0, 1, 2}, 5: {0}} // (EIT with 4 events exceeds the memory guard)
		}
		// thorough: larger counts with the quick descriptor-loop shapes, and the richer descriptor loops (0..2 descriptors
		// in every loop) for tables of at most one entry (rich loops in every entry of a 4-entry table did not finish in 50 min)
		for k := int64(0); k <= 5; k++ {
			for _, n := range counts[k] {
				dec = append(dec, []int64{k, n, -1, 0})
				if level > 0 && n <= 1 {
					dec = append(dec, []int64{k, n, -1, 1})
				}
			}
			// two sections per unit: a second section of every kind behind this one
			dec = append(dec, []int64{k, 1, (k + 1) % 6, 0})
			if level > 0 {
				dec = append(dec, []int64{k, 1, (k + 3) % 6, 0}, []int64{k, 0, k, 0})
			}
		}
		for k := int64(0); k <= 1; k++ {
			for _, n := range counts[k] {
				enc = append(enc, []int64{k, n, 0})
				if level > 0 && n <= 1 {
					enc = append(enc, []int64{k, n, 1})
				}
			}
		}
		return []TaskSpec{
			{Harness: "HarnessC13Decode", ArgSets: dec, Reach: []string{"C13.decode.end"}},
			{Harness: "HarnessC13Encode", ArgSets: enc, Reach: []string{"C13.encode.end"}, Asserts: []string{"C13."}},
			{Harness: "HarnessC13DecodeBig", ArgSets: [][]int64{{2}, {3}, {4}}, Reach: []string{"C13.big.end"}},
			{Harness: "HarnessC13Multi", ArgSets: [][]int64{{60, 184}, {60, 100}, {45, 184}, {90, 150}}, Reach: []string{"C13.multi.end"}},
			{Harness: "HarnessMuxPCRMove", ArgSets: [][]int64{{1}, {5}}, Reach: []string{"mux.pcrmove.end"}, Asserts: []string{"C13."}},
			{Harness: "HarnessMuxScript", ArgSets: [][]int64{{1475747, 2}, {124797967, 3}, {1470709, 1}}, Reach: []string{"mux.script.end"}, Asserts: []string{"C13."}},
		}
	}
	t["C13"] = PropSpec{
		ID: "C13", Quick: c13(0), Thorough: c13(1),
		Bounds: map[string]string{
			"quick":    "decode: PAT 0/1/4 programs, PMT 0/1/3 streams, SDT/NIT/EIT 0/1/2 entries, TOT; table_id over all variants of the type (EIT: 0x4E..0x6F symbolic); every identifier/flag/version field symbolic; descriptor loops: first loop 0..1 descriptors of {stream identifier, unknown tag, user defined} with 0/2 body bytes, other loops {empty, one stream identifier}; pointer_field in {0,1,5} with arbitrary filler; 1..2 sections per unit; trailing 0xFF stuffing 0/3 bytes; EIT/TOT times are concrete representatives (C15 covers the time kernels); through the Demuxer: a PAT unit of two sections of 45/60/90 programs spanning 3-4 packets with the second section starting inside a continuation packet; through the Muxer: every PMT emitted while streams are added/removed and the PCR PID is moved decodes to the program map of that moment. encode: PAT 0/1/4 programs, PMT 0/1/3 streams with the same descriptor loops, pointer_field 0/2",
			"thorough": "PAT up to 16 programs, PMT up to 6 streams, SDT/NIT up to 4 entries (EIT up to 2 events) with the quick descriptor-loop shapes; descriptor loops of 0..2 descriptors in every loop for tables of at most one entry; three two-section combinations per kind",
		},
		Outside: "loops up to the 1021/4093-byte section limits (pure repetition of the same loop body); descriptor bodies (C14); DVB time arithmetic (C15)",
	}
	c09 := func(level int64) []TaskSpec {
		in := [][]int64{{0, 5}, {0, 8}, {0, 9}, {0, 13}, {0, 24}, {2, 13}, {66, 12}, {66, 17}, {78, 15}, {115, 11}, {112, 8}, {1, 8}}
		if level > 0 {
			// (PMT sections of 18 bytes and TOT sections of 14 bytes were tried: > 15 min each, two nested symbolic loop lengths)
			in = append(in, [][]int64{{0, 6}, {0, 7}, {0, 12}, {0, 16}, {0, 17}, {0, 32}, {0, 64}, {2, 14}, {70, 12}, {65, 13}, {111, 15}, {78, 27}}...)
		}
		enc := [][]int64{{0, 0, 0}, {0, 1, 0}, {0, 4, 0}, {1, 0, 0}, {1, 1, 0}, {1, 3, 0}}
		var kinds [][]int64
		for i := int64(0); i < 25; i++ {
			kinds = append(kinds, []int64{i, level})
		}
		return []TaskSpec{
			{Harness: "HarnessC09HasCRC", Reach: []string{"C09.hascrc.end"}},
			{Harness: "HarnessC09In", ArgSets: in, TimeoutMs: 20000, Reach: []string{"C09.in.accepted", "C09.in.rejected"}},
			{Harness: "HarnessC13Encode", ArgSets: enc, Reach: []string{"C13.encode.end"}, Asserts: []string{"C09."}},
			{Harness: "HarnessC14LangLen", ArgSets: cross(ints(2, 8, 12, 17, 19, 20), ints(0, 2, 3, 4)), Reach: []string{"C14.langlen.end"}, Asserts: []string{"C09."}},
			{Harness: "HarnessC09Desc", ArgSets: kinds, Reach: []string{"C09.desc.end"}},
			{Harness: "HarnessC09Repeat", Reach: []string{"C09.repeat.end"}},
		}
	}
	t["C09"] = PropSpec{
		ID: "C09", Quick: c09(0), Thorough: c09(1),
		Bounds: map[string]string{
			"quick":    "input: every byte string of 3+L bytes offered as a section of table id T, for (T,L) in PAT{5,8,9,13,24}, PMT{13}, SDT{12,17}, EIT{15}, TOT{11}, TDT{8}, CAT-id{8}; declared section_length 0..L (every value); all bytes symbolic => every corruption of every section of that size; hasCRC32/hasPSISyntaxHeader for all 2^8 table ids. output: PAT 0/1/4 programs, PMT 0/1/3 streams (section_length and CRC_32 of the bytes written); a PMT carrying one descriptor of each of the 25 modelled kinds in every shape the model draws (optional parts, 0..2 items, variable fields of 0..2 bytes; code fields of 0/2/3/4 bytes): ES_info_length, section_length, CRC_32 position and value equal the bytes written",
			"thorough": "more lengths per table (PAT up to 64 bytes) and table-id variants",
		},
		Outside:     "sections longer than listed on the input side (the CRC check is one length-generic loop); NIT sections with arbitrary bytes (two nested symbolic loop lengths: >10^5 paths at the minimal size; the CRC code path is the same as for the other table ids); Muxer-level emission is asserted in the Muxer harnesses",
		Assumptions: []string{"feasibility of 'CRC matches' branches over many symbolic bytes is found by model repair + evaluation (or left unknown: both sides explored); the proof obligation itself is discharged syntactically (the goal is the branch condition the library has just tested) or by the solver"},
	}
	mux := func(thorough bool, prefixes []string) []TaskSpec {
		var wd, hist, step, script [][]int64
		hdrs := []int64{0, 2}
		if thorough {
			hdrs = []int64{0, 1, 2}
		}
		for af := int64(0); af <= 8; af++ {
			for _, h := range hdrs {
				for l := int64(0); l < 18; l++ {
					for prior := int64(0); prior <= 1; prior++ {
						wd = append(wd, []int64{af, h, l, prior})
					}
				}
			}
		}
		// adaptation field whose private data alone exceeds a packet (190 bytes): a few payload lengths only
		for _, l := range []int64{0, 9, 17} {
			wd = append(wd, []int64{9, 0, l, 0}, []int64{9, 2, l, 1})
		}
		// adaptation field with a preset Length (as parsed): short and long payloads
		for _, l := range []int64{0, 2, 5, 10, 13} {
			wd = append(wd, []int64{10, 2, l, 0})
		}
		hist = [][]int64{{2, 1}, {3, 2}}
		lvl := int64(0)
		maxK := int64(2)
		if thorough {
			hist = append(hist, []int64{3, 1}, []int64{4, 1}, []int64{4, 3})
			lvl, maxK = 1, 3
		}
		for op := int64(0); op <= 7; op++ {
			for k := int64(0); k <= maxK; k++ {
				for _, p := range []int64{1, 3} {
					step = append(step, []int64{op, k, p, lvl})
				}
			}
		}
		for _, sc := range []int64{1465646, 1475747, 12479317, 14787, 124797967, 1247379, 146146, 1456757, 14707, 1470709, 10476, 124731797, 1247317979} {
			script = append(script, []int64{sc, 2}, []int64{sc, 1}, []int64{sc, 3})
		}
		return []TaskSpec{
			{Harness: "HarnessMuxWriteData", ArgSets: wd, Reach: []string{"mux.writedata.end"}, Asserts: prefixes},
			{Harness: "HarnessMuxHistory", ArgSets: hist, Reach: []string{"mux.history.end"}, Asserts: prefixes},
			{Harness: "HarnessMuxStep", ArgSets: step, Reach: []string{"mux.step.end"}, Asserts: prefixes},
			{Harness: "HarnessMuxScript", ArgSets: script, Reach: []string{"mux.script.end"}, Asserts: prefixes},
			{Harness: "HarnessMuxPair", ArgSets: append(cross(ints(0, 1, 2, 3, 4), ints(0, 1, 2, 3, 4), ints(0)), []int64{0, 3, 1}, []int64{4, 1, 1}, []int64{1, 0, 1}), Reach: []string{"mux.pair.end"}, Asserts: prefixes},
			{Harness: "HarnessMuxPCRMove", ArgSets: [][]int64{{1}, {2}, {5}}, Reach: []string{"mux.pcrmove.end"}, Asserts: prefixes},
			{Harness: "HarnessMuxWrap", Reach: []string{"mux.wrap.end"}, Asserts: prefixes},
			{Harness: "HarnessMuxPeriod", ArgSets: [][]int64{{1}, {2}, {39}, {40}, {41}, {42}, {43}, {50}}, Reach: []string{"mux.period.end"}, Asserts: prefixes},
			{Harness: "HarnessMuxBig", ArgSets: [][]int64{{65527, 1}, {65528, 1}, {65530, 1}, {65535, 1}, {65536, 1}, {65530, 0}}, Reach: []string{"mux.big.end"}, Asserts: prefixes},
		}
	}
	muxBounds := map[string]string{
		"quick":    "one inductive step from an arbitrary valid Muxer state (0..2 streams; every counter, version, dirty flag and the retransmit counter symbolic under the stated invariant; retransmit period 1 and 3) for each of the 8 operations with symbolic arguments, invariant re-checked after the step; all operation histories of length <= 3 from NewMuxer over {Add explicit/auto, Remove, SetPCRPID, WriteTables, WriteData (2 PIDs, with/without AF, 1 or 190 payload bytes), WriteData with an oversized AF, WritePacket 184/185 bytes}; the PCR PID moved between two configured streams between emissions (periods 1, 2, 5); 13 scripted histories of 5-10 operations around failed table emissions, remove/re-add and writes interleaved over two PIDs after a re-add, each with retransmit periods 1, 2 and 3; WriteData with first-packet AF {none, PCR+RAI, private data+RAI, 175-byte and 190-byte private data, exact-fit private data, extension} x timestamps {none, PTS+DTS} x 18 payload lengths around the 184-byte boundaries (1..372) x {first call, later call}, symbolic PID/stream type/payload/timestamps/PCR; every ordered pair of WriteData calls whose last packets need 1 / 2 / 0 / many stuffing bytes (state carried from one packet to the next); 18 units and 34 content changes for counter/version wrap-around; configured retransmit periods {1,2,39,40,41,42,43,50} driven for p+2 calls; two units of 65527/65528/65530/65535/65536 payload bytes (audio and video stream ids) around the PES_packet_length limit; WritePacket with adaptation fields {none, PCR+stuffing, one-byte, private data} and payloads fitting exactly / 1 / 2 bytes over; every output is also demultiplexed by the real Demuxer (C01)",
		"thorough": "states with up to 3 streams, all WriteData variants in the step, histories of length 4, timestamps {none, PTS, PTS+DTS}",
	}
	muxOutside := "more than 3 streams; ES/program descriptors in the PMT (the PMT-larger-than-one-packet rejection is not exercised); payloads longer than 372 bytes including PES_packet_length > 65535 (writePESHeader's length rule is covered for all sizes in C12); histories longer than 4 other than through the inductive step and the scripts"
	muxAssume := []string{"the inductive step assumes the representation invariant stated in harness/h_mux.go (vMuxState) and re-establishes it; the base case is the histories from NewMuxer", "PIDs are concrete in histories and steps (they matter only through equality) and symbolic in the WriteData harness"}
	t["C04"] = PropSpec{ID: "C04", Quick: mux(false, []string{"C04."}), Thorough: mux(true, []string{"C04."}), Bounds: muxBounds, Outside: muxOutside, Assumptions: muxAssume}
	t["C05"] = PropSpec{ID: "C05", Quick: mux(false, []string{"C05."}), Thorough: mux(true, []string{"C05."}), Bounds: muxBounds, Outside: muxOutside, Assumptions: muxAssume}
	t["C17"] = PropSpec{ID: "C17", Quick: mux(false, []string{"C17."}), Thorough: mux(true, []string{"C17."}), Bounds: muxBounds, Outside: muxOutside, Assumptions: muxAssume}
	t["C01"] = PropSpec{ID: "C01", Quick: mux(false, []string{"C01.", "C12.data"}), Thorough: mux(true, []string{"C01.", "C12.data"}), Bounds: muxBounds, Outside: muxOutside, Assumptions: muxAssume}
	// ---- demuxer properties ----
	c02 := func(th bool) []TaskSpec {
		pes := [][]int64{{0, 1, 0}, {0, 0, 0}, {1, 1, 0}, {10, 1, 0}, {40, 0, 0}, {200, 1, 1}, {400, 0, 1}}
		psi := [][]int64{{1, 1, 0, 0}, {1, 2, 1, 0}, {1, 3, 4, 2}, {0, 1, 0, 0}, {0, 2, 0, 0}, {0, 3, 1, 3}}
		if th {
			pes = append(pes, [][]int64{{60, 1, 0}, {60, 0, 0}, {170, 1, 0}, {190, 0, 1}, {552, 1, 1}}...)
			psi = append(psi, [][]int64{{1, 2, 0, 3}, {1, 4, 1, 0}, {0, 4, 4, 0}, {0, 2, 1, 2}}...)
		}
		return []TaskSpec{
			{Harness: "HarnessC02PES", ArgSets: pes, Reach: []string{"C02.pes.end"}},
			{Harness: "HarnessC02PSI", ArgSets: psi, Reach: []string{"C02.psi.end"}},
			{Harness: "HarnessC02Mixed", ArgSets: [][]int64{{0}, {1}}, Reach: []string{"C02.mixed.end"}},
			{Harness: "HarnessC02LatePAT"},
		}
	}
	t["C02"] = PropSpec{ID: "C02", Quick: c02(false), Thorough: c02(true),
		Bounds: map[string]string{
			"quick":    "PES units (payload 0/1/10/40 bytes: every split point incl. 1-byte first/last chunks; 200/400 bytes over 2-3 packets with first chunk in {1,2,9,183,184}), bounded and unbounded PES_packet_length, followed by a second unit, symbolic PID/counter/payload/PTS; PSI units of 1..3 sections on the PAT PID (early delivery) and the SDT PID, pointer_field {0,1,4} with arbitrary filler, trailing 0xFF {0,2,3} or AF stuffing, every split point that keeps each section start in the first packet (ISO 13818-1 2.4.4); PAT->PMT, two PES units and a two-section SDT unit on 4 PIDs in all 210 order-preserving interleavings, with the no-read-ahead check on the reader position",
			"thorough": "more payload sizes (up to 552 bytes / 4 packets) and section counts up to 4",
		},
		Outside: "more than 4 PIDs; units longer than 4 packets; PSI layouts in which a section starts in a continuation packet or the previous section's tail sits in the pointer area (outside the property's reference multiplexer, observation O1 in DESIGN.md)"}
	c06 := func(th bool) []TaskSpec {
		acc := [][]int64{{2, 5}, {3, 4}}
		if th {
			acc = append(acc, []int64{3, 5}, []int64{4, 4})
		}
		return []TaskSpec{
			{Harness: "HarnessC06Dup", ArgSets: [][]int64{{0}, {1}}, Reach: []string{"C06.dup.end"}},
			{Harness: "HarnessC06Loss", ArgSets: [][]int64{{1, 0}, {2, 0}, {3, 0}, {1, 1}, {1, 2}}, Reach: []string{"C06.loss.end"}},
			{Harness: "HarnessC06Acc", ArgSets: acc, Reach: []string{"C06.acc.end"}},
		}
	}
	t["C06"] = PropSpec{ID: "C06", Quick: c06(false), Thorough: c06(true),
		Bounds: map[string]string{
			"quick":    "stream of 10 packets on 2 PIDs (4 PES units of 2,1,3,1 packets with wrapping counters; 2 SDT units): every single-packet duplication position (adjacent, or with one foreign packet in between) and every deletion of a run of 1..3 packets of one PID; accumulator level: 2-3 packets of one PID with symbolic continuity counters and header class in {payload, payload+PUSI, AF-only, discontinuity_indicator, TEI}, any payload packet duplicated",
			"thorough": "accumulator level with 3-4 packets",
		},
		Outside: "bursts of 16 or more lost packets (excluded by the property); payload contents are fixed patterns in the end-to-end streams (timestamps symbolic)"}
	c07 := func(th bool) []TaskSpec {
		pool := [][]int64{{2, 1, 3, 0}, {1, 2, 5, 0}, {2, 2, 3, 0}, {2, 1, 2, 1}, {2, 2, 2, 1}}
		if th {
			pool = append(pool, []int64{2, 2, 4, 0}, []int64{3, 1, 3, 0}, []int64{3, 1, 2, 1})
		}
		return []TaskSpec{
			{Harness: "HarnessC07Pool", ArgSets: pool, Reach: []string{"C07.pool.end"}},
			{Harness: "HarnessC07EOF", Reach: []string{"C07.eof.end"}},
			{Harness: "HarnessC07Data", ArgSets: [][]int64{{0}, {10}, {37}, {2000}}, Reach: []string{"C07.data.end"}, Asserts: []string{"C07."}},
			{Harness: "HarnessC07Garbage", ArgSets: [][]int64{{0x101}, {0xff}, {1}}, Reach: []string{"C07.garbage.end"}},
			{Harness: "HarnessC02Mixed", ArgSets: [][]int64{{0}}, Reach: []string{"C02.mixed.end"}},
		}
	}
	t["C07"] = PropSpec{ID: "C07", Quick: c07(false), Thorough: c07(true),
		Bounds: map[string]string{
			"quick":    "packet pool: sequences of 2+1, 1+2 and 2+2 packets on two PIDs with symbolic counters and header classes, every order-preserving merge, one inserted null / TEI / adaptation-only packet at every position: groups flushed per PID equal those of the PID alone; EOF drain order for 3 symbolic PIDs; pooled payload buffer recycled with arbitrary stale contents of 0/10/37/2000 bytes; two junk packets of a foreign PID (arbitrary flags/counters, junk or PES-looking payload) at every pair of positions in a 5-packet stream; all 210 interleavings of the 4-PID stream of C02",
			"thorough": "2+2 with 4 classes, 3+1 packets",
		},
		Outside: "more than two active PIDs plus one noise PID at the pool level"}
	c08 := func(th bool) []TaskSpec {
		var chunks, autos, sizes [][]int64
		for kind := int64(0); kind <= 2; kind++ {
			for auto := int64(0); auto <= 1; auto++ {
				chunks = append(chunks, []int64{kind, auto, 188})
				if th {
					chunks = append(chunks, []int64{kind, auto, 192})
				}
			}
			for sz := int64(188); sz <= 192; sz++ {
				autos = append(autos, []int64{kind, sz})
			}
		}
		chunks = append(chunks, []int64{0, 0, 204}, []int64{1, 0, 192}, []int64{3, 0, 188})
		if !th {
			// auto-detection of a larger packet size under short reads (quick: seekable and plain readers, 192 and 190 bytes)
			chunks = append(chunks, []int64{0, 1, 192}, []int64{1, 1, 192}, []int64{0, 1, 190})
		}
		for _, k := range []int64{4, 16} {
			for _, f := range []int64{0, 16, 31} {
				sizes = append(sizes, []int64{k, 3, f})
			}
			sizes = append(sizes, []int64{k, 1, 0}, []int64{k, 2, 18})
		}
		return []TaskSpec{
			{Harness: "HarnessC08Chunks", ArgSets: chunks, Reach: []string{"C08.chunks.end"}},
			{Harness: "HarnessC08Auto", ArgSets: autos, Reach: []string{"C08.auto.end"}},
			{Harness: "HarnessC08Bad", ArgSets: cross(ints(0, 1, 2, 3), ints(0, 1)), Reach: []string{"C08.bad.end"}},
			{Harness: "HarnessC08Short", ArgSets: [][]int64{{0, 188, 1}, {0, 188, 4}, {1, 188, 1}, {1, 188, 2}, {1, 188, 4}, {2, 188, 1}, {2, 188, 4}, {2, 190, 2}, {0, 191, 1}, {2, 192, 1}, {1, 188, 5}, {2, 188, 5}}, Reach: []string{"C08.short.end"}},
			{Harness: "HarnessC08Size", ArgSets: sizes, Reach: []string{"C08.size.end"}},
		}
	}
	t["C08"] = PropSpec{ID: "C08", Quick: c08(false), Thorough: c08(true),
		Bounds: map[string]string{
			"quick":    "5-packet stream (PAT, PMT, 2 PES units) read through seekable / plain / bufio readers whose first three Read calls return at most c1,c2,c3 bytes for every (c1,c2,c3) in {1,2,100,size-1,size,size+1,193,400}^3, explicit and auto-detected size (188-byte packets on every reader kind; 190/192-byte packets auto-detected on seekable and plain readers); auto-detection for every packet size 188..192 on every reader kind; a stream with one damaged packet (sync byte / adaptation_field_length) at every position, on every reader kind incl. a bufio.Reader smaller than a packet: same data, same number of errors, same end; auto-detection on streams that end inside the 193-byte detection window (one packet of 188/190/191/192 bytes plus 1..5 bytes); packets carried in 188+4 and 188+16 bytes with arbitrary extra bytes for the C11 adaptation-field layouts, through parsePacket and through NextPacket with an explicit size; explicit sizes 192 and 204",
			"thorough": "fragmentation also for 192-byte packets",
		},
		Outside: "more than three short reads per stream (each read goes through the same io.ReadFull loop); streams longer than 5 packets; table contents are concrete in these streams (auto-detection compares every byte with the sync byte)"}
	c03 := func(th bool) []TaskSpec {
		var pes, psi, prog [][]int64
		maxPES, maxPSI := int64(16), int64(7)
		if th {
			maxPES, maxPSI = 24, 9
		}
		for n := int64(0); n <= maxPES; n++ {
			pes = append(pes, []int64{n})
		}
		for n := int64(0); n <= maxPSI; n++ {
			psi = append(psi, []int64{n})
		}
		for _, n := range []int64{0, 1, 187, 188, 189, 376, 377} {
			for api := int64(0); api <= 1; api++ {
				prog = append(prog, []int64{n, 188, api, api})
			}
		}
		for _, n := range []int64{0, 100, 192, 193, 194, 400} {
			prog = append(prog, []int64{n, 0, 0, 0}, []int64{n, 0, 1, 2})
		}
		prog = append(prog, []int64{385, 192, 1, 1}, []int64{410, 204, 0, 2}, []int64{601, 300, 1, 0})
		// explicit size through a bufio.Reader whose buffer is smaller than a packet
		prog = append(prog, []int64{377, 188, 0, 3}, []int64{400, 192, 1, 3})
		paf := [][]int64{{0, 188}, {1, 188}, {7, 188}, {20, 188}, {183, 188}, {250, 188}, {40, 192}}
		if th {
			paf = append(paf, [][]int64{{2, 188}, {8, 188}, {13, 188}, {14, 188}, {40, 188}, {100, 188}, {184, 188}, {255, 188}, {20, 204}, {183, 192}}...)
		}
		return []TaskSpec{
			{Harness: "HarnessC03PES", ArgSets: pes, Reach: []string{"C03.pes.ok", "C03.pes.err"}},
			{Harness: "HarnessC03PSI", ArgSets: psi, Reach: []string{"C03.psi.end"}},
			{Harness: "HarnessC03Progress", ArgSets: prog, Reach: []string{"C03.progress.end"}, MaxPaths: 400000},
			{Harness: "HarnessC14Skip", ArgSets: [][]int64{{0}, {3}, {6}}, Reach: []string{"C14.skip.ok"}},
			{Harness: "HarnessC03Long", ArgSets: [][]int64{{6, 0, 0}, {12, 0, 0}, {13, 0, 1}, {23, 0, 2}, {12, 1, 0}, {45, 0, 5}}, Reach: []string{"C03.long.end"}},
			{Harness: "HarnessC03PacketAF", ArgSets: paf, Reach: []string{"C03.packetaf.ok"}, MaxPaths: 400000},
		}
	}
	t["C03"] = PropSpec{ID: "C03", Quick: c03(false), Thorough: c03(true),
		Bounds: map[string]string{
			"quick":    "panic-freedom: parsePESData on every byte string of length 0..16 behind a start code; parsePSIData and isPSIComplete on every byte string of length 0..7; every descriptor tag with 0/3/6 arbitrary body bytes; parsePacket on packets with an arbitrary header and up to 40 arbitrary adaptation-field bytes (flags, PCR/OPCR, private-data length, extension) for adaptation_field_length in {0,1,7,20,183,250} (188-byte) and 40 (192-byte packets). progress: NextPacket/NextData on inputs of length {0,1,187,188,189,376,377} (explicit 188) and {0,100,192,193,194,400} (auto-detect) plus sizes 192/204/300, where the sync byte and header bytes of every packet are arbitrary and the adaptation_field_length is one of {0,183,250}: every call consumes a packet or returns ErrNoMorePackets, which is sticky and reached within len/size+4 calls; seekable, plain and bufio readers",
			"thorough": "PES up to 24 bytes, PSI up to 9 bytes",
		},
		Outside: "whole-stream arbitrary bytes through the full parser stack at once (path explosion): covered compositionally; parsePacket on 188 fully arbitrary bytes in one query did not finish in 25 minutes: the adaptation field is sharded by its declared length and the payload is fixed junk (parsePacket copies it without looking at it)"}
	c18 := func(th bool) []TaskSpec {
		var rd, wr [][]int64
		for auto := int64(0); auto <= 1; auto++ {
			for kind := int64(0); kind <= 2; kind++ {
				rd = append(rd, []int64{auto, kind})
			}
		}
		for one := int64(0); one <= 1; one++ {
			wr = append(wr, []int64{0, one, 0}, []int64{2, one, 0}, []int64{3, one, 0})
			for _, pi := range []int64{0, 2, 4, 3} {
				wr = append(wr, []int64{1, one, pi})
			}
			if th {
				wr = append(wr, []int64{1, one, 1}, []int64{1, one, 5})
			}
		}
		return []TaskSpec{
			{Harness: "HarnessC18Read", ArgSets: rd, Reach: []string{"C18.read.end"}},
			{Harness: "HarnessC18Write", ArgSets: wr, Reach: []string{"C18.write.end"}},
		}
	}
	t["C18"] = PropSpec{ID: "C18", Quick: c18(false), Thorough: c18(true),
		Bounds: map[string]string{
			"quick":    "reader failing at byte offset f in {0,1,100,187,188,189,192,193,194,376,500,len-1,len} of a 5-packet stream (seekable/plain/bufio, explicit and auto-detected size); writer failing permanently or once on every single Write call index of WriteTables, WritePacket and WriteData whose last packet needs 0, 1, 2 and many stuffing bytes",
			"thorough": "also payloads with a first-packet adaptation field and 3-packet units",
		},
		Outside: "partial acceptance of the failing Write (the fake writer accepts 0 bytes of the failing call)"}
	t["C19"] = PropSpec{ID: "C19",
		Quick: []TaskSpec{
			{Harness: "HarnessC19Skip", ArgSets: [][]int64{{0}, {1}}, Reach: []string{"C19.skip.end"}},
			{Harness: "HarnessC19Parser", ArgSets: [][]int64{{0, 0}, {1, 0}, {2, 0}, {0, 0x1fff}, {1, 0x1fff}, {0, 1}, {1, 1}, {0, 0x1ffe}}, Reach: []string{"C19.parser.end"}},
			{Harness: "HarnessC19SkipRewind", ArgSets: [][]int64{{0}, {1}}, Reach: []string{"C19.rewind.end"}},
		},
		Bounds:  map[string]string{"quick": "5-packet stream (PAT, PMT, 2 PES units, one with AF stuffing): all 2^5 per-packet skipper decisions for NextPacket and NextData against the pre-filtered stream, callback arguments checked against an independent parse; packets parser as observer, replacer and failing parser"},
		Outside: "longer streams; predicates are arbitrary per-packet decisions, which subsumes every predicate over header/AF on this stream"}
	t["C20"] = PropSpec{ID: "C20",
		Quick: []TaskSpec{
			{Harness: "HarnessC20Rewind", ArgSets: cross(ints(0, 1), ints(0, 1), ints(0, 1)), Reach: []string{"C20.rewind.end"}},
			{Harness: "HarnessC20RewindLong", ArgSets: [][]int64{{0}, {1}}, Reach: []string{"C20.long.end"}},
			{Harness: "HarnessC20RewindMulti", ArgSets: [][]int64{{0}, {1}}, Reach: []string{"C20.multi.end"}},
		},
		Bounds:  map[string]string{"quick": "21-packet stream with two PES PIDs one of which consumes exactly 16 packets (counter wrap) before the rewind, k = 0..5 NextData calls; 5-packet stream (PAT precedes PMT) on a seekable reader: every number k of NextPacket (0..5) or NextData (0..4) calls before Rewind, Rewind repeated once with a second k, explicit and auto-detected size; the following full drain equals a fresh demuxer's"},
		Outside: "longer streams"}
	t["C16"] = PropSpec{ID: "C16",
		Quick: []TaskSpec{
			{Harness: "HarnessC16Alias", ArgSets: [][]int64{{0}, {1}}, Reach: []string{"C16.alias.end"}},
			{Harness: "HarnessC16Pool", Reach: []string{"C16.pool.end"}},
			{Harness: "HarnessC16Caller", ArgSets: [][]int64{{0, 100}, {0, 183}, {0, 184}, {0, 1}, {1, 50}, {1, 176}, {2, 183}, {2, 10}, {3, 10}, {3, 200}, {3, 400}}, Reach: []string{"C16.caller.end"}},
			{Harness: "HarnessC07Data", ArgSets: [][]int64{{0}, {2000}}, Reach: []string{"C07.data.end"}, Asserts: []string{"C16."}},
			{Harness: "HarnessMuxWriteData", ArgSets: [][]int64{{0, 2, 9, 0}, {1, 1, 13, 1}, {2, 2, 4, 0}}, Reach: []string{"mux.writedata.end"}, Asserts: []string{"C16."}},
		},
		Bounds:      map[string]string{"quick": "sequential aliasing only: every payload / private-data / PES data slice returned by NextPacket and NextData on a 5-packet stream is snapshotted and re-compared after every later call on the same demuxer and on a second demuxer sharing the buffer pool; recycled pool buffers; the Muxer leaves the caller's payload bytes unchanged"},
		Outside:     "data races and true goroutine interleavings: the engine has no concurrency model (the technique family lists concurrency as out of reach); what is claimed is the absence of aliasing between returned slices and reused/pooled buffers in sequential use",
		Assumptions: []string{"sync.Pool is modelled as a LIFO free list (Get after Put returns the same item)"}}
	return t
}
