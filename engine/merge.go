package main

// Diamond merging: when both arms of a symbolic If reach the branch's immediate post-dominator in the
// same frame without forking, panicking, returning or changing the heap shape, the two executions are
// merged into one with ite() values. Merging changes cost, not meaning.

import (
	"fmt"
	"go/types"

	"golang.org/x/tools/go/ssa"
)

func computeIPdom(fn *ssa.Function) map[*ssa.BasicBlock]*ssa.BasicBlock {
	n := len(fn.Blocks)
	res := map[*ssa.BasicBlock]*ssa.BasicBlock{}
	if n == 0 || n > 2000 {
		return res
	}
	words := (n + 63) / 64
	full := make([]uint64, words)
	for i := 0; i < n; i++ {
		full[i/64] |= 1 << uint(i%64)
	}
	pd := make([][]uint64, n)
	isPanic := make([]bool, n)
	isExit := make([]bool, n)
	for i, b := range fn.Blocks {
		pd[i] = append([]uint64{}, full...)
		if len(b.Instrs) > 0 {
			switch b.Instrs[len(b.Instrs)-1].(type) {
			case *ssa.Panic:
				isPanic[i] = true
			case *ssa.Return:
				isExit[i] = true
			}
		}
	}
	for i := range fn.Blocks {
		if isExit[i] {
			s := make([]uint64, words)
			s[i/64] |= 1 << uint(i%64)
			pd[i] = s
		}
	}
	changed := true
	for changed {
		changed = false
		for i := n - 1; i >= 0; i-- {
			b := fn.Blocks[i]
			if isExit[i] || isPanic[i] || len(b.Succs) == 0 {
				continue
			}
			acc := append([]uint64{}, full...)
			for _, s := range b.Succs {
				if isPanic[s.Index] {
					continue
				}
				for k := range acc {
					acc[k] &= pd[s.Index][k]
				}
			}
			acc[i/64] |= 1 << uint(i%64)
			for k := range acc {
				if acc[k] != pd[i][k] {
					changed = true
					pd[i] = acc
					break
				}
			}
		}
	}
	count := func(s []uint64) int {
		c := 0
		for _, x := range s {
			for ; x != 0; x &= x - 1 {
				c++
			}
		}
		return c
	}
	for i, b := range fn.Blocks {
		if isPanic[i] || isExit[i] {
			continue
		}
		ci := count(pd[i])
		if ci == n && n > 1 {
			// untouched (no path to exit)
			continue
		}
		for j := 0; j < n; j++ {
			if j == i || pd[i][j/64]&(1<<uint(j%64)) == 0 {
				continue
			}
			if count(pd[j]) == ci-1 {
				res[b] = fn.Blocks[j]
				break
			}
		}
	}
	return res
}

type armResult struct {
	writes map[*Value]Value
	order  []*Value
	phis   []Value
	ret    Value
}

func nphis(b *ssa.BasicBlock) int {
	n := 0
	for _, in := range b.Instrs {
		if _, ok := in.(*ssa.Phi); ok {
			n++
		} else {
			break
		}
	}
	return n
}

// phiOperands evaluates the phi operands of block j for the edge from fr.prev
func (w *Worker) phiOperands(fr *Frame, j *ssa.BasicBlock) []Value {
	n := nphis(j)
	if n == 0 {
		return nil
	}
	if fr.phiOverride != nil {
		v := fr.phiOverride
		fr.phiOverride = nil
		return v
	}
	pi := -1
	for i, p := range j.Preds {
		if p == fr.prev {
			pi = i
			break
		}
	}
	if pi < 0 {
		panic("merge: predecessor not found")
	}
	vals := make([]Value, n)
	for i := 0; i < n; i++ {
		vals[i] = w.get(fr, j.Instrs[i].(*ssa.Phi).Edges[pi])
	}
	return vals
}

func (w *Worker) runArm(fr *Frame, from, succ, j *ssa.BasicBlock, cond *Term, jstart int, regsBefore []Value) (res *armResult, ok bool) {
	savePC := len(w.pc)
	saveModel, saveModelOK := w.model, w.modelOK
	saveSteps := w.steps
	saveDepth := w.depth
	saveStack := len(w.stackDesc)
	w.pc = append(w.pc, cond)
	if holds, ok := w.evalUnderModel(cond); !ok || !holds {
		w.modelOK = false
	}
	fr.prev = from
	fr.block = succ
	fr.phiOverride = nil
	defer func() {
		w.pc = w.pc[:savePC]
		w.model, w.modelOK = saveModel, saveModelOK
		if r := recover(); r != nil {
			pe, isPE := r.(pathEnd)
			if !isPE {
				panic(r)
			}
			_ = pe
			w.depth = saveDepth
			w.stackDesc = w.stackDesc[:saveStack]
			// roll back heap
			for i := len(w.journal) - 1; i >= jstart; i-- {
				*w.journal[i].p = w.journal[i].old
			}
			w.journal = w.journal[:jstart]
			copy(fr.regs, regsBefore)
			fr.defers = fr.defers[:0:0]
			res, ok = nil, false
		}
	}()
	w.armBudget = saveSteps + int64(w.eng.cfg.MaxArmSteps)
	var phis []Value
	var ret Value
	if j == nil {
		// return-merge: the arm must end by returning from this frame
		fr.armRet++
		fr.done = false
		func() {
			defer func() { fr.armRet-- }()
			w.run(fr, nil)
		}()
		if !fr.done {
			w.abort("mergefail", "arm did not return")
		}
		ret = fr.result
		fr.done = false
		fr.result = nil
	} else {
		if succ != j {
			w.run(fr, j)
		}
		phis = w.phiOperands(fr, j)
	}
	// registers that existed before must not have been overwritten (loop back to before the branch)
	for i, v := range regsBefore {
		if v != nil && !sameReg(fr.regs[i], v) {
			w.abort("mergefail", "arm overwrote an earlier register")
		}
	}
	ar := &armResult{writes: map[*Value]Value{}, phis: phis, ret: ret}
	for i := jstart; i < len(w.journal); i++ {
		p := w.journal[i].p
		if _, seen := ar.writes[p]; !seen {
			ar.order = append(ar.order, p)
		}
		ar.writes[p] = *p
	}
	for i := len(w.journal) - 1; i >= jstart; i-- {
		*w.journal[i].p = w.journal[i].old
	}
	w.journal = w.journal[:jstart]
	copy(fr.regs, regsBefore)
	return ar, true
}

func sameReg(a, b Value) bool {
	switch x := a.(type) {
	case *Term:
		y, ok := b.(*Term)
		return ok && x == y
	case *Value:
		y, ok := b.(*Value)
		return ok && x == y
	case string:
		y, ok := b.(string)
		return ok && x == y
	}
	// aggregates / others: registers are immutable, assume unchanged if same dynamic kind
	return fmt.Sprintf("%T", a) == fmt.Sprintf("%T", b)
}

// tryMerge returns the join block when the If at the end of b was merged, nil otherwise.
func (w *Worker) tryMerge(fr *Frame, b *ssa.BasicBlock, c *Term, stop *ssa.BasicBlock) (*ssa.BasicBlock, bool) {
	if !w.eng.cfg.Merge {
		return nil, false
	}
	j := fr.info.ipdo[b]
	if j == nil && (stop != nil || len(fr.defers) > 0) {
		// return-merge only at top level of a frame's arm structure
		return nil, false
	}
	k := w.decIdx
	replay := k < len(w.prefix)
	if replay && !w.prefix[k].Merge {
		return nil, false
	}
	if !replay {
		if w.eng.mergeBlacklisted(b) {
			return nil, false
		}
	}
	// both arms must be feasible, otherwise it is a forced branch (let branch() handle it)
	saveDecIdx, saveDecs := w.decIdx, len(w.decs)
	w.decIdx++
	w.decs = append(w.decs, Decision{Merge: true})
	// Both arms must be feasible (an infeasible arm would only bloat the merged terms with dead ite branches).
	// A bare nondet boolean that the path condition does not mention is trivially free: no query.
	if !replay && !w.freeBool(c) {
		infeasible := false
		w.softGoal = true
		w.mergeCheck = true
		if cur, ok := w.evalUnderModel(c); ok {
			other := c
			if cur {
				other = w.tt.Not(c)
			}
			if r, _ := w.feasible(other, false); r == Unsat {
				infeasible = true
			}
		} else {
			r1, _ := w.feasible(c, false)
			r2, _ := w.feasible(w.tt.Not(c), false)
			infeasible = r1 == Unsat || r2 == Unsat
		}
		w.softGoal = false
		w.mergeCheck = false
		if infeasible {
			w.decIdx, w.decs = saveDecIdx, w.decs[:saveDecs]
			return nil, false
		}
	}
	outerJ := w.journalOn
	jstart := len(w.journal)
	w.journalOn = true
	w.mergeLvl++
	regsBefore := append([]Value{}, fr.regs...)
	saveBudget := w.armBudget
	fail := func() (*ssa.BasicBlock, bool) {
		w.mergeLvl--
		w.journalOn = outerJ
		w.armBudget = saveBudget
		fr.block = b
		w.decIdx, w.decs = saveDecIdx, w.decs[:saveDecs]
		if replay {
			panic("merge failed during replay of a merged decision")
		}
		w.eng.noteMergeFail(b)
		w.mstats.fail++
		fr.done = false
		fr.result = nil
		return nil, false
	}
	aT, ok := w.runArm(fr, b, b.Succs[0], j, c, jstart, regsBefore)
	if !ok {
		return fail()
	}
	aE, ok := w.runArm(fr, b, b.Succs[1], j, w.tt.Not(c), jstart, regsBefore)
	if !ok {
		return fail()
	}
	var mret Value
	if j == nil {
		m, ok := w.mergeVal(c, aT.ret, aE.ret)
		if !ok {
			return fail()
		}
		mret = m
	}
	// merge phis
	var phis []Value
	for i := range aT.phis {
		m, ok := w.mergeVal(c, aT.phis[i], aE.phis[i])
		if !ok {
			return fail()
		}
		phis = append(phis, m)
	}
	// merge heap
	type upd struct {
		p *Value
		v Value
	}
	var upds []upd
	seen := map[*Value]bool{}
	for _, lst := range [][]*Value{aT.order, aE.order} {
		for _, p := range lst {
			if seen[p] {
				continue
			}
			seen[p] = true
			vT, okT := aT.writes[p]
			if !okT {
				vT = *p
			}
			vE, okE := aE.writes[p]
			if !okE {
				vE = *p
			}
			m, ok := w.mergeVal(c, vT, vE)
			if !ok {
				return fail()
			}
			upds = append(upds, upd{p, m})
		}
	}
	w.mergeLvl--
	w.journalOn = outerJ
	w.armBudget = saveBudget
	for _, u := range upds {
		w.setSlot(u.p, u.v)
	}
	w.mstats.ok++
	fr.block = b
	if j == nil {
		fr.result = mret
		fr.done = true
		return nil, true
	}
	fr.phiOverride = phis
	if phis == nil && nphis(j) > 0 {
		panic("merge: missing phis")
	}
	return j, false
}

func (w *Worker) mergeVal(c *Term, a, b Value) (Value, bool) {
	switch x := a.(type) {
	case *Term:
		y, ok := b.(*Term)
		if !ok || x.kind != y.kind || x.w != y.w {
			return nil, false
		}
		return w.tt.Ite(c, x, y), true
	case string:
		y, ok := b.(string)
		return x, ok && x == y
	case *Value:
		y, ok := b.(*Value)
		return x, ok && x == y
	case Struct:
		y, ok := b.(Struct)
		if !ok || len(x) != len(y) {
			return nil, false
		}
		r := make(Struct, len(x))
		for i := range x {
			m, ok := w.mergeVal(c, x[i], y[i])
			if !ok {
				return nil, false
			}
			r[i] = m
		}
		return r, true
	case Array:
		y, ok := b.(Array)
		if !ok || len(x) != len(y) {
			return nil, false
		}
		r := make(Array, len(x))
		for i := range x {
			m, ok := w.mergeVal(c, x[i], y[i])
			if !ok {
				return nil, false
			}
			r[i] = m
		}
		return r, true
	case Tuple:
		y, ok := b.(Tuple)
		if !ok || len(x) != len(y) {
			return nil, false
		}
		r := make(Tuple, len(x))
		for i := range x {
			m, ok := w.mergeVal(c, x[i], y[i])
			if !ok {
				return nil, false
			}
			r[i] = m
		}
		return r, true
	case SliceV:
		y, ok := b.(SliceV)
		if !ok {
			return nil, false
		}
		if x == nil || y == nil {
			return x, x == nil && y == nil
		}
		if len(x) != len(y) || cap(x) != cap(y) {
			return nil, false
		}
		if cap(x) == 0 {
			return x, true
		}
		return x, &x[:1][0] == &y[:1][0]
	case Iface:
		y, ok := b.(Iface)
		if !ok {
			return nil, false
		}
		if x.T == nil || y.T == nil {
			return x, x.T == nil && y.T == nil
		}
		if !types.Identical(x.T, y.T) {
			return nil, false
		}
		m, ok := w.mergeVal(c, x.V, y.V)
		return Iface{x.T, m}, ok
	case *MapV:
		y, ok := b.(*MapV)
		return x, ok && x == y
	case *Closure:
		y, ok := b.(*Closure)
		return x, ok && x == y
	case *ssa.Function:
		y, ok := b.(*ssa.Function)
		return x, ok && x == y
	case nil:
		return nil, b == nil
	}
	return nil, false
}

// freeBool: c is v or not(v) for a boolean variable v that occurs in no path-condition conjunct
func (w *Worker) freeBool(c *Term) bool {
	if c.op == ONot {
		c = c.args[0]
	}
	if c.op != OVar {
		return false
	}
	for _, p := range w.pc {
		if w.mentions(p, c) {
			return false
		}
	}
	return true
}

func (w *Worker) mentions(t, v *Term) bool {
	if !t.sym {
		return false
	}
	if w.varsMemo == nil {
		w.varsMemo = map[int32]map[int32]bool{}
	}
	return w.varsOf(t)[v.id]
}

func (w *Worker) varsOf(t *Term) map[int32]bool {
	if s, ok := w.varsMemo[t.id]; ok {
		return s
	}
	s := map[int32]bool{}
	seen := map[int32]bool{}
	var rec func(x *Term)
	rec = func(x *Term) {
		if !x.sym || seen[x.id] {
			return
		}
		seen[x.id] = true
		if x.op == OVar {
			s[x.id] = true
			return
		}
		for i := 0; i < int(x.na); i++ {
			rec(x.args[i])
		}
	}
	rec(t)
	w.varsMemo[t.id] = s
	return s
}
