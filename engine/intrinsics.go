package main

// Intercepted functions: the harness API (v*) and the small set of std stubs (each is part of the claim).

import (
	"fmt"
	"go/types"
	"os"
	"strings"
	"sync/atomic"
	"time"

	"golang.org/x/tools/go/ssa"
)

type intrinsic func(w *Worker, fn *ssa.Function, args []Value) Value

const astitsPath = "github.com/asticode/go-astits"
const astikitPath = "github.com/asticode/go-astikit"

var initWhitelist = map[string]bool{astikitPath: true, "io": true, "bufio": true}

type errTypes struct {
	wrapErrorPtr types.Type
}

func (e *Engine) intrinsicFor(fn *ssa.Function) intrinsic {
	if v, ok := e.methods.Load(fn); ok {
		if v == nil {
			return nil
		}
		in, _ := v.(intrinsic)
		return in
	}
	var in intrinsic
	name := fn.String()
	if i, ok := e.intr[name]; ok {
		in = i
	} else if fn.Name() == "init" && fn.Pkg != nil && fn.Pkg != e.pkg && fn.Synthetic != "" {
		path := fn.Pkg.Pkg.Path()
		if initWhitelist[path] {
			in = func(w *Worker, fn *ssa.Function, args []Value) Value {
				old := w.lenient
				w.lenient = true
				w.runBody(fn, args)
				w.lenient = old
				return nil
			}
		} else {
			in = func(w *Worker, fn *ssa.Function, args []Value) Value { return nil }
		}
	}
	if in == nil {
		e.methods.Store(fn, (intrinsic)(nil))
		return nil
	}
	e.methods.Store(fn, in)
	return in
}

// runBody executes fn's real body, bypassing the intrinsic table.
func (w *Worker) runBody(fn *ssa.Function, args []Value) Value {
	if fn.Blocks == nil {
		return w.lenientResult(fn)
	}
	info := infoOf(fn)
	fr := &Frame{fn: fn, info: info, regs: make([]Value, info.n)}
	copy(fr.regs, args)
	fr.block = fn.Blocks[0]
	w.depth++
	w.stackDesc = append(w.stackDesc, fn.Name())
	w.run(fr, nil)
	w.stackDesc = w.stackDesc[:len(w.stackDesc)-1]
	w.depth--
	return fr.result
}

func (w *Worker) fresh(kind Kind, wd int) *Term {
	if w.mergeLvl > 0 {
		w.abort("mergefail", "nondet in merge arm")
	}
	name := fmt.Sprintf("v%d", w.nvars)
	w.nvars++
	t := w.tt.Var(name+kindSuffix(kind, wd), kind, wd)
	w.nondets = append(w.nondets, t)
	return t
}

func kindSuffix(k Kind, wd int) string {
	if k == KBool {
		return "b"
	}
	return fmt.Sprintf("w%d", wd)
}

func nilErr() Value { return Iface{} }

func intrinsicTable() map[string]intrinsic {
	p := astitsPath + "."
	t := map[string]intrinsic{}
	t[p+"vnondetBool"] = func(w *Worker, fn *ssa.Function, a []Value) Value { return w.fresh(KBool, 0) }
	t[p+"vnondetU8"] = func(w *Worker, fn *ssa.Function, a []Value) Value { return w.fresh(KBV, 8) }
	t[p+"vnondetU16"] = func(w *Worker, fn *ssa.Function, a []Value) Value { return w.fresh(KBV, 16) }
	t[p+"vnondetU32"] = func(w *Worker, fn *ssa.Function, a []Value) Value { return w.fresh(KBV, 32) }
	t[p+"vnondetU64"] = func(w *Worker, fn *ssa.Function, a []Value) Value { return w.fresh(KBV, 64) }
	t[p+"vnondetInt"] = func(w *Worker, fn *ssa.Function, a []Value) Value { return w.fresh(KBV, 64) }
	t[p+"vnondetBytes"] = func(w *Worker, fn *ssa.Function, a []Value) Value {
		n := w.concInt(a[0], "vnondetBytes length")
		s := make(SliceV, n)
		for i := range s {
			s[i] = w.fresh(KBV, 8)
		}
		return s
	}
	// vrange(lo,hi): an arbitrary int in [lo,hi], case-split (forked) over every value
	t[p+"vrange"] = func(w *Worker, fn *ssa.Function, a []Value) Value {
		lo, hi := a[0].(*Term), a[1].(*Term)
		x := w.fresh(KBV, 64)
		w.assume(w.tt.And(w.tt.Cmp(OSle, lo, x), w.tt.Cmp(OSle, x, hi)))
		v := w.concretize(x, "vrange")
		return w.tt.BV(uint64(v), 64)
	}
	t[p+"vassume"] = func(w *Worker, fn *ssa.Function, a []Value) Value {
		c := a[0].(*Term)
		if w.mergeLvl > 0 {
			w.abort("mergefail", "assume in merge arm")
		}
		if w.replaying() {
			if !c.IsConst() {
				w.pc = append(w.pc, c)
			} else if c.val == 0 {
				w.abort("infeasible", "assume false")
			}
			return nil
		}
		w.assume(c)
		return nil
	}
	t[p+"vassert"] = func(w *Worker, fn *ssa.Function, a []Value) Value {
		w.assertion(a[0].(string), a[1].(*Term))
		return nil
	}
	t[p+"vreach"] = func(w *Worker, fn *ssa.Function, a []Value) Value {
		if w.mergeLvl > 0 {
			w.abort("mergefail", "reach in merge arm")
		}
		w.pathReach = append(w.pathReach, a[0].(string))
		return nil
	}
	t[p+"vknown"] = func(w *Worker, fn *ssa.Function, a []Value) Value {
		id := a[0].(string)
		if w.eng.cfg.KnownOpen[id] {
			return a[1]
		}
		return w.tt.False
	}
	t[p+"vassertK"] = func(w *Worker, fn *ssa.Function, a []Value) Value {
		id, kid := a[0].(string), a[1].(string)
		region, ok := a[2].(*Term), a[3].(*Term)
		if w.mergeLvl > 0 {
			w.abort("mergefail", "assert in merge arm")
		}
		if !w.eng.cfg.KnownOpen[kid] {
			w.assertion(id, ok)
			return nil
		}
		// open finding: (1) it must still be observable inside its region, (2) outside the region the property must hold
		if !w.replaying() && w.mergeLvl == 0 {
			bad := w.tt.And(region, w.tt.Not(ok))
			if !bad.IsConst() || bad.val == 1 {
				if r, m := w.feasible(bad, true); r == Sat {
					v := w.violationFromModel("assert", id, m)
					v.Known = kid
					w.eng.mu.Lock()
					w.eng.res.Violations = append(w.eng.res.Violations, v)
					w.eng.mu.Unlock()
					w.pathViol++
				}
			}
		}
		w.assertion(id, w.tt.Or(region, ok))
		if !w.replaying() {
			w.assume(ok)
		} else if !ok.IsConst() {
			w.pc = append(w.pc, ok)
		}
		return nil
	}
	t[p+"vsymbolic"] = func(w *Worker, fn *ssa.Function, a []Value) Value { return w.tt.True }
	t[p+"vconcrete"] = func(w *Worker, fn *ssa.Function, a []Value) Value {
		// vconcrete(x int) int: case-split x over its feasible values
		v := w.concretize(a[0].(*Term), "vconcrete")
		return w.tt.BV(uint64(v), 64)
	}
	t[p+"vlog"] = func(w *Worker, fn *ssa.Function, a []Value) Value { return nil }

	// ---- fmt / errors ----
	t["fmt.Errorf"] = func(w *Worker, fn *ssa.Function, a []Value) Value {
		format := a[0].(string)
		va := a[1].(SliceV)
		idx := wrapIndex(format)
		if idx < 0 || idx >= len(va) {
			// no %w: behaves like errors.New
			return w.newErrorString(format)
		}
		inner, ok := va[idx].(Iface)
		if !ok {
			return w.newErrorString(format)
		}
		if inner.T == nil {
			// %w with nil error: fmt yields a wrapError? (no: "%!w(<nil>)" and plain errorString)
			return w.newErrorString(format)
		}
		wt := w.eng.wrapErrorPtr()
		slot := new(Value)
		*slot = Struct{format, inner}
		return Iface{T: wt, V: slot}
	}
	t["fmt.Sprintf"] = func(w *Worker, fn *ssa.Function, a []Value) Value { return a[0].(string) }
	t["fmt.Sprint"] = func(w *Worker, fn *ssa.Function, a []Value) Value { return "" }
	t["fmt.Println"] = func(w *Worker, fn *ssa.Function, a []Value) Value {
		return Tuple{w.tt.BV(0, 64), nilErr()}
	}
	t["fmt.Printf"] = t["fmt.Println"]
	t["errors.Is"] = func(w *Worker, fn *ssa.Function, a []Value) Value {
		err, target := a[0].(Iface), a[1].(Iface)
		for depth := 0; depth < 50; depth++ {
			if err.T == nil {
				return w.tt.Bool(target.T == nil)
			}
			eq := w.eqVal(err, target)
			if !eq.IsConst() {
				w.abort("unsupported", "errors.Is on symbolic error identity")
			}
			if eq.val == 1 {
				return w.tt.True
			}
			// Unwrap
			ms := w.eng.prog.MethodSets.MethodSet(err.T)
			var sel *types.Selection
			for i := 0; i < ms.Len(); i++ {
				if ms.At(i).Obj().Name() == "Unwrap" {
					sel = ms.At(i)
				}
			}
			if sel == nil {
				return w.tt.False
			}
			m := w.eng.prog.MethodValue(sel)
			r := w.call(m, []Value{err.V}, nil)
			ni, ok := r.(Iface)
			if !ok {
				return w.tt.False
			}
			err = ni
		}
		w.abort("budget", "errors.Is chain too long")
		return nil
	}

	// ---- sync.Pool (LIFO free list; Get after Put returns the same item, like the runtime does on one P) ----
	t["(*sync.Pool).Get"] = func(w *Worker, fn *ssa.Function, a []Value) Value {
		if w.journalOn {
			w.abort("mergefail", "pool in merge arm")
		}
		p := a[0].(*Value)
		if l := w.poolFree[p]; len(l) > 0 {
			it := l[len(l)-1]
			w.poolFree[p] = l[:len(l)-1]
			return it
		}
		st := (*p).(Struct)
		ps := fn.Signature.Recv().Type().(*types.Pointer).Elem().Underlying().(*types.Struct)
		for i := 0; i < ps.NumFields(); i++ {
			if ps.Field(i).Name() == "New" {
				nf := st[i]
				if c, ok := nf.(*Closure); ok && c == nil {
					return Iface{}
				}
				return w.callValue(nf, nil, "sync.Pool.New")
			}
		}
		return Iface{}
	}
	t["(*sync.Pool).Put"] = func(w *Worker, fn *ssa.Function, a []Value) Value {
		if w.journalOn {
			w.abort("mergefail", "pool in merge arm")
		}
		p := a[0].(*Value)
		if it, ok := a[1].(Iface); ok && it.T == nil {
			return nil
		}
		w.poolFree[p] = append(w.poolFree[p], a[1])
		return nil
	}

	// ---- bytes.Buffer: struct{buf []byte; off int; lastRead} modelled on its own fields ----
	t["(*bytes.Buffer).Write"] = func(w *Worker, fn *ssa.Function, a []Value) Value {
		st := (*a[0].(*Value)).(Struct)
		src := a[1].(SliceV)
		w.storeInto(&st[0], w.appendVals(st[0].(SliceV), src))
		return Tuple{w.tt.BV(uint64(len(src)), 64), nilErr()}
	}
	t["(*bytes.Buffer).WriteByte"] = func(w *Worker, fn *ssa.Function, a []Value) Value {
		st := (*a[0].(*Value)).(Struct)
		w.storeInto(&st[0], w.appendVals(st[0].(SliceV), SliceV{a[1]}))
		return nilErr()
	}
	t["(*bytes.Buffer).Bytes"] = func(w *Worker, fn *ssa.Function, a []Value) Value {
		st := (*a[0].(*Value)).(Struct)
		buf := st[0].(SliceV)
		off := w.concInt(st[1], "bytes.Buffer.off")
		if buf == nil {
			return SliceV(nil)
		}
		return buf[off:]
	}
	t["(*bytes.Buffer).Len"] = func(w *Worker, fn *ssa.Function, a []Value) Value {
		st := (*a[0].(*Value)).(Struct)
		off := w.concInt(st[1], "bytes.Buffer.off")
		return w.tt.BV(uint64(len(st[0].(SliceV))-off), 64)
	}
	t["(*bytes.Buffer).Reset"] = func(w *Worker, fn *ssa.Function, a []Value) Value {
		st := (*a[0].(*Value)).(Struct)
		buf := st[0].(SliceV)
		if buf != nil {
			w.storeInto(&st[0], buf[:0])
		}
		w.storeInto(&st[1], w.tt.BV(0, 64))
		return nil
	}

	// ---- internal/bytealg.MakeNoZero (runtime-provided; used by bytes.Repeat, strings.Builder ...): a byte slice of
	// the given concrete length; the contents are unspecified until written, modelled as zero like the runtime does
	// for small sizes ----
	t["internal/bytealg.MakeNoZero"] = func(w *Worker, fn *ssa.Function, a []Value) Value {
		n := w.concInt(a[0], "MakeNoZero length")
		s := make(SliceV, n)
		for i := range s {
			s[i] = w.tt.BV(0, 8)
		}
		return s
	}

	// ---- byte-slice helpers whose bodies are assembly or go through string conversion: modelled on the slices ----
	bytesEq := func(w *Worker, a, b SliceV) *Term {
		if len(a) != len(b) {
			return w.tt.False
		}
		c := w.tt.True
		for i := range a {
			c = w.tt.And(c, w.tt.Eq(a[i].(*Term), b[i].(*Term)))
		}
		return c
	}
	asBytes := func(w *Worker, v Value) SliceV {
		switch x := v.(type) {
		case SliceV:
			return x
		case string:
			s := make(SliceV, len(x))
			for i := 0; i < len(x); i++ {
				s[i] = w.tt.BV(uint64(x[i]), 8)
			}
			return s
		case nil:
			return nil
		}
		w.abort("unsupported", "byte helper on %T", v)
		return nil
	}
	t["bytes.Equal"] = func(w *Worker, fn *ssa.Function, a []Value) Value {
		return bytesEq(w, asBytes(w, a[0]), asBytes(w, a[1]))
	}
	t["internal/bytealg.Equal"] = t["bytes.Equal"]
	t["bytes.HasPrefix"] = func(w *Worker, fn *ssa.Function, a []Value) Value {
		s, p := asBytes(w, a[0]), asBytes(w, a[1])
		if len(p) > len(s) {
			return w.tt.False
		}
		return bytesEq(w, s[:len(p)], p)
	}
	t["bytes.HasSuffix"] = func(w *Worker, fn *ssa.Function, a []Value) Value {
		s, p := asBytes(w, a[0]), asBytes(w, a[1])
		if len(p) > len(s) {
			return w.tt.False
		}
		return bytesEq(w, s[len(s)-len(p):], p)
	}
	indexByte := func(w *Worker, fn *ssa.Function, a []Value) Value {
		s, c := asBytes(w, a[0]), a[1].(*Term)
		for i := range s {
			if w.branch(w.tt.Eq(s[i].(*Term), c)) {
				return w.tt.BV(uint64(i), 64)
			}
		}
		return w.tt.BV(^uint64(0), 64)
	}
	t["internal/bytealg.IndexByte"] = indexByte
	t["internal/bytealg.IndexByteString"] = indexByte
	t["bytes.IndexByte"] = indexByte
	t["internal/bytealg.Count"] = func(w *Worker, fn *ssa.Function, a []Value) Value {
		s, c := asBytes(w, a[0]), a[1].(*Term)
		n := 0
		for i := range s {
			if w.branch(w.tt.Eq(s[i].(*Term), c)) {
				n++
			}
		}
		return w.tt.BV(uint64(n), 64)
	}
	t["internal/bytealg.CountString"] = t["internal/bytealg.Count"]
	compare := func(w *Worker, fn *ssa.Function, a []Value) Value {
		x, y := asBytes(w, a[0]), asBytes(w, a[1])
		n := len(x)
		if len(y) < n {
			n = len(y)
		}
		for i := 0; i < n; i++ {
			xi, yi := x[i].(*Term), y[i].(*Term)
			if w.branch(w.tt.Eq(xi, yi)) {
				continue
			}
			if w.branch(w.tt.Cmp(OUlt, xi, yi)) {
				return w.tt.BV(^uint64(0), 64)
			}
			return w.tt.BV(1, 64)
		}
		switch {
		case len(x) < len(y):
			return w.tt.BV(^uint64(0), 64)
		case len(x) > len(y):
			return w.tt.BV(1, 64)
		}
		return w.tt.BV(0, 64)
	}
	t["internal/bytealg.Compare"] = compare
	t["bytes.Compare"] = compare

	// ---- sort.Slice / sort.SliceStable: insertion sort driven by the caller's less function (forks on symbolic results) ----
	sortSlice := func(w *Worker, fn *ssa.Function, a []Value) Value {
		var s SliceV
		switch x := a[0].(type) {
		case Iface:
			s, _ = x.V.(SliceV)
		case SliceV:
			s = x
		}
		if s == nil {
			return nil
		}
		for i := 1; i < len(s); i++ {
			for j := i; j > 0; j-- {
				lt := w.callValue(a[1], []Value{w.tt.BV(uint64(j), 64), w.tt.BV(uint64(j-1), 64)}, "sort.Slice less").(*Term)
				if !w.branch(lt) {
					break
				}
				x, y := copyVal(s[j]), copyVal(s[j-1])
				w.setSlot(&s[j], y)
				w.setSlot(&s[j-1], x)
			}
		}
		return nil
	}
	t["sort.Slice"] = sortSlice
	t["sort.SliceStable"] = sortSlice

	// ---- sort.Ints ----
	t["sort.Ints"] = func(w *Worker, fn *ssa.Function, a []Value) Value {
		s := a[0].(SliceV)
		for i := 1; i < len(s); i++ {
			for j := i; j > 0; j-- {
				lt := w.tt.Cmp(OSlt, s[j].(*Term), s[j-1].(*Term))
				if !w.branch(lt) {
					break
				}
				x, y := s[j], s[j-1]
				w.setSlot(&s[j], y)
				w.setSlot(&s[j-1], x)
			}
		}
		return nil
	}

	// ---- time (opaque tuple: wall = Y<<16|M<<8|D, ext = ns of day, loc = nil meaning UTC) ----
	t["time.Date"] = func(w *Worker, fn *ssa.Function, a []Value) Value {
		tt := w.tt
		y, m, d := a[0].(*Term), a[1].(*Term), a[2].(*Term)
		h, mi, s, ns := a[3].(*Term), a[4].(*Term), a[5].(*Term), a[6].(*Term)
		wall := tt.Concat(tt.BV(0, 16), tt.Concat(tt.Extract(y, 31, 0), tt.Concat(tt.Extract(m, 7, 0), tt.Extract(d, 7, 0))))
		// the stub keeps (Y,M,D) un-normalised: record whether the fields were representable
		sec := tt.BinBV(OAdd, tt.BinBV(OMul, tt.BinBV(OAdd, tt.BinBV(OMul, h, tt.BV(60, 64)), mi), tt.BV(60, 64)), s)
		ext := tt.BinBV(OAdd, tt.BinBV(OMul, sec, tt.BV(1000000000, 64)), ns)
		return Struct{wall, ext, (*Value)(nil)}
	}
	t["(time.Time).Add"] = func(w *Worker, fn *ssa.Function, a []Value) Value {
		st := a[0].(Struct)
		return Struct{st[0], w.tt.BinBV(OAdd, st[1].(*Term), a[1].(*Term)), st[2]}
	}
	t["(time.Time).Year"] = func(w *Worker, fn *ssa.Function, a []Value) Value {
		st := a[0].(Struct)
		return w.tt.Sext(w.tt.Extract(st[0].(*Term), 47, 16), 64)
	}
	t["(time.Time).Month"] = func(w *Worker, fn *ssa.Function, a []Value) Value {
		st := a[0].(Struct)
		return w.tt.Zext(w.tt.Extract(st[0].(*Term), 15, 8), 64)
	}
	t["(time.Time).Day"] = func(w *Worker, fn *ssa.Function, a []Value) Value {
		st := a[0].(Struct)
		return w.tt.Zext(w.tt.Extract(st[0].(*Term), 7, 0), 64)
	}
	t["(time.Time).Truncate"] = func(w *Worker, fn *ssa.Function, a []Value) Value {
		st := a[0].(Struct)
		d := a[1].(*Term)
		if !d.IsConst() || d.val != uint64(24*time.Hour) {
			w.abort("unsupported", "time.Truncate with a duration other than 24h")
		}
		w.requireTimeOfDay(st[1].(*Term))
		return Struct{st[0], w.tt.BV(0, 64), st[2]}
	}
	t["(time.Time).Sub"] = func(w *Worker, fn *ssa.Function, a []Value) Value {
		x, y := a[0].(Struct), a[1].(Struct)
		if x[0] != y[0] {
			eq := w.tt.Eq(x[0].(*Term), y[0].(*Term))
			if r, _ := w.feasible(w.tt.Not(eq), false); r != Unsat {
				w.abort("unsupported", "time.Sub across different dates (time stub)")
			}
		}
		return w.tt.BinBV(OSub, x[1].(*Term), y[1].(*Term))
	}
	t["time.Unix"] = func(w *Worker, fn *ssa.Function, a []Value) Value {
		tt := w.tt
		sec, ns := a[0].(*Term), a[1].(*Term)
		wall := tt.BV(uint64(1970)<<16|1<<8|1, 64)
		ext := tt.BinBV(OAdd, tt.BinBV(OMul, sec, tt.BV(1000000000, 64)), ns)
		return Struct{wall, ext, (*Value)(nil)}
	}
	t["(time.Time).UnixNano"] = func(w *Worker, fn *ssa.Function, a []Value) Value {
		st := a[0].(Struct)
		wl := st[0].(*Term)
		if !wl.IsConst() || wl.val != uint64(1970)<<16|1<<8|1 {
			w.abort("unsupported", "UnixNano on a time not built by time.Unix (time stub)")
		}
		return st[1]
	}
	t["(time.Time).IsZero"] = func(w *Worker, fn *ssa.Function, a []Value) Value {
		st := a[0].(Struct)
		return w.tt.And(w.tt.Eq(st[0].(*Term), w.tt.BV(0, 64)), w.tt.Eq(st[1].(*Term), w.tt.BV(0, 64)))
	}
	return t
}

// requireTimeOfDay: the time stub only supports normalised times of day
func (w *Worker) requireTimeOfDay(ext *Term) {
	tt := w.tt
	ok := tt.And(tt.Cmp(OSle, tt.BV(0, 64), ext), tt.Cmp(OSlt, ext, tt.BV(uint64(24*time.Hour), 64)))
	if ok.IsConst() && ok.val == 1 {
		return
	}
	if r, _ := w.feasible(tt.Not(ok), false); r != Unsat {
		w.abort("unsupported", "time stub: time of day outside [0,24h) is feasible at %s", w.where())
	}
}

func (w *Worker) newErrorString(msg string) Value {
	// *errors.errorString via the real constructor
	f := w.eng.prog.ImportedPackage("errors").Func("New")
	return w.call(f, []Value{msg}, nil)
}

func (e *Engine) wrapErrorPtr() types.Type {
	if v, ok := e.methods.Load("wrapErrorPtr"); ok {
		return v.(types.Type)
	}
	fp := e.prog.ImportedPackage("fmt")
	tn := fp.Type("wrapError")
	pt := types.NewPointer(tn.Type())
	v, _ := e.methods.LoadOrStore("wrapErrorPtr", types.Type(pt))
	return v.(types.Type)
}

// wrapIndex returns the argument index consumed by the first %w verb, -1 if none.
func wrapIndex(format string) int {
	arg := 0
	for i := 0; i < len(format); i++ {
		if format[i] != '%' {
			continue
		}
		i++
		for i < len(format) && strings.ContainsRune("+-# 0123456789.", rune(format[i])) {
			i++
		}
		if i >= len(format) {
			break
		}
		switch format[i] {
		case '%':
			continue
		case '*':
			arg++
			continue
		case 'w':
			return arg
		}
		arg++
	}
	return -1
}

// assertion discharges vassert(id, c)
func (w *Worker) assertion(id string, c *Term) {
	e := w.eng
	if w.replaying() {
		if !c.IsConst() {
			w.pc = append(w.pc, c)
		}
		return
	}
	if w.mergeLvl > 0 {
		w.abort("mergefail", "assert in merge arm")
	}
	if c.IsConst() {
		e.mu.Lock()
		e.res.Asserts++
		e.res.Folded++
		e.mu.Unlock()
		if c.val == 0 {
			// false on every input of this path: record it and keep executing (nothing to assume), so that
			// assertions of other properties further down the same path are still checked
			v := w.makeViolation("assert", id)
			e.mu.Lock()
			e.res.Violations = append(e.res.Violations, v)
			e.mu.Unlock()
			w.pathViol++
		}
		return
	}
	// the goal is literally one of the path-condition conjuncts: discharged without the solver
	for _, pcj := range w.pc {
		if pcj == c {
			e.mu.Lock()
			e.res.Asserts++
			e.res.Folded++
			e.mu.Unlock()
			return
		}
	}
	nc := w.tt.Not(c)
	if debugQueries {
		fmt.Fprintf(os.Stderr, "[assert %s] size=%d pc=%d\n", id, nc.size, len(w.pc))
	}
	t0 := time.Now()
	var r Result
	var m map[string]uint64
	if cur, ok := w.evalUnderModel(c); ok && !cur {
		r, m = Sat, w.model
	} else {
		capped := false
		if nc.size > 20000 {
			// a huge goal (checksum-like): on the unchanged tree such goals fold syntactically; do not let a broken
			// tree spend a full time-out on every path (unknown is reported as inconclusive for this obligation)
			w.solver.nextTO = 10000
			capped = true
		}
		r, m = w.feasible(nc, true)
		if r == Unknown && !(e.cfg.StopFlag != nil && atomic.LoadInt32(e.cfg.StopFlag) != 0) {
			// counterexample search by model diversification (can only turn "unknown" into a replayable violation, never
			// into "holds"): models of the path condition alone are cheap; ask for models in which one input at a time
			// differs from the first one and evaluate the goal under each
			if m2, ok := w.diversify(nc); ok {
				r, m = Sat, m2
				e.mu.Lock()
				e.res.Diversified++
				e.mu.Unlock()
			}
		}
		if capped && r == Unknown {
			// a goal that legitimately needs longer (the CRC step lemma takes ~9 s unloaded): the first few capped
			// unknowns of a task are retried with the full per-query time-out
			e.mu.Lock()
			retry := e.cappedRetries < 3
			if retry {
				e.cappedRetries++
			}
			e.mu.Unlock()
			if retry {
				r, m = w.feasible(nc, true)
			}
		}
		if r == Unknown && !(e.cfg.StopFlag != nil && atomic.LoadInt32(e.cfg.StopFlag) != 0) {
			// second opinion from the other solvers before the obligation is reported as inconclusive (bounded per task)
			e.mu.Lock()
			fb := e.fallbacks < 4
			if fb {
				e.fallbacks++
			}
			e.mu.Unlock()
			if fb {
				for _, alt := range altSolvers(e.cfg.Solver) {
					as := NewSolver(alt, e.cfg.TimeoutMs, w.tt)
					r2, m2 := as.Check(w.pc, nc, true)
					as.Close()
					if r2 != Unknown {
						r, m = r2, m2
						e.mu.Lock()
						e.res.Fallbacks++
						e.mu.Unlock()
						break
					}
				}
			}
		}
	}
	ms := time.Since(t0).Milliseconds()
	key := fmt.Sprintf("%s|%d|%d", id, nc.id, len(w.pc))
	e.mu.Lock()
	e.res.Asserts++
	// distinctness is judged per worker table: id + goal term id + pc length + last pc conjunct id
	if len(w.pc) > 0 {
		key += fmt.Sprintf("|%d|w%p", w.pc[len(w.pc)-1].id, w.tt)
	} else {
		key += fmt.Sprintf("|w%p", w.tt)
	}
	if !e.seenQ[key] {
		e.seenQ[key] = true
		e.res.NonTrivial++
	}
	if len(e.res.Samples) < 6 || (r != Unsat && len(e.res.Samples) < 12) {
		e.res.Samples = append(e.res.Samples, Sample{Harness: e.cfg.Harness, Assert: id, PCSize: len(w.pc), Size: int(nc.size), Verdict: r.String(), Ms: ms, Term: nc.String()})
	}
	e.mu.Unlock()
	switch r {
	case Unsat:
	case Unknown:
		e.noteUnknown("assert " + id)
		e.mu.Lock()
		e.res.Inconclusive = append(e.res.Inconclusive, "solver unknown on assertion "+id)
		e.mu.Unlock()
	case Sat:
		v := w.violationFromModel("assert", id, m)
		e.mu.Lock()
		e.res.Violations = append(e.res.Violations, v)
		e.mu.Unlock()
		w.pathViol++
	}
	// continue under the assumption that the assertion holds (when some inputs of this path satisfy it)
	if r == Sat {
		if cur, ok := w.evalUnderModel(c); ok && cur {
			w.pc = append(w.pc, c)
			return
		}
		if r2, m2 := w.feasible(c, true); r2 == Unsat {
			return // violated by every input of the path: go on without the assumption
		} else {
			w.pc = append(w.pc, c)
			w.model, w.modelOK = m2, m2 != nil && r2 == Sat
			return
		}
	}
	w.assume(c)
}

func altSolvers(kind string) []string {
	if strings.HasPrefix(kind, "cvc5") {
		return []string{"z3", "z3-new"}
	}
	if kind == "z3-new" {
		return []string{"z3", "cvc5"}
	}
	return []string{"z3-new", "cvc5"}
}

// diversify looks for a model of the path condition under which goal (a negated assertion) evaluates to true
func (w *Worker) diversify(goal *Term) (Model, bool) {
	w.solver.nextTO = 5000
	r, m0 := w.solver.Check(w.pc, nil, true)
	if r != Sat || m0 == nil {
		return nil, false
	}
	try := func(m Model) bool {
		return w.tt.evalNamed(goal, m, map[int32]uint64{}) == 1
	}
	if try(m0) {
		return m0, true
	}
	n := 0
	for _, v := range w.nondets {
		if n >= 16 {
			break
		}
		if v.kind != KBV || v.name == "" {
			continue
		}
		n++
		for _, alt := range []*Term{w.tt.Not(w.tt.Eq(v, w.tt.BV(m0[v.name], int(v.w)))), w.tt.Eq(v, w.tt.BV(^uint64(0)>>(64-uint(v.w)), int(v.w)))} {
			w.solver.nextTO = 3000
			r, m := w.solver.Check(w.pc, alt, true)
			if r == Sat && m != nil && try(m) {
				return m, true
			}
		}
	}
	return nil, false
}
