package main

// Native replay: a solver model becomes an input vector for the same harness compiled by the real
// toolchain against /repo's working tree (go test -overlay). Only what reproduces is reported.

import (
	"bytes"
	"encoding/json"
	"fmt"
	"os"
	"os/exec"
	"path/filepath"
	"regexp"
	"strings"
	"time"
)

type ReplayCase struct {
	V          Violation
	Name       string // test function suffix
	Outcome    string // what the native run printed
	Reproduced bool
	Path       string
}

func outDir() string {
	d := filepath.Join(verifDir(), "out")
	if so := scratchOut(); so != "" {
		d = so
	}
	os.MkdirAll(filepath.Join(d, "replay"), 0o755)
	return d
}

func writeOverlayJSON(testFiles map[string]string, extraReplace map[string]string) (string, error) {
	_, paths := harnessOverlay(nil)
	rep := map[string]string{}
	for virt, real := range paths {
		rep[virt] = real
		if src, ok := harnessRewrites[virt]; ok {
			// a harness file from which non-compiling declarations were removed: the native build uses the same text
			p := filepath.Join(outDir(), "rewritten_"+filepath.Base(virt))
			os.WriteFile(p, src, 0o644)
			rep[virt] = p
		}
	}
	for virt, real := range testFiles {
		rep[virt] = real
	}
	for virt, real := range extraReplace {
		rep[virt] = real
	}
	b, _ := json.MarshalIndent(map[string]interface{}{"Replace": rep}, "", " ")
	f, err := os.CreateTemp(outDir(), "overlay-*.json")
	if err != nil {
		return "", err
	}
	f.Write(b)
	f.Close()
	return f.Name(), nil
}

func genReplayTest(name string, v Violation, openKnown []string) string {
	var sb strings.Builder
	sb.WriteString("package astits\n\nimport (\n\t\"fmt\"\n\t\"testing\"\n)\n\n")
	fmt.Fprintf(&sb, "// Replay of a solver counterexample: harness %s%v, expected failure: %s %q\n", v.Harness, v.Args, v.Kind, v.ID)
	fmt.Fprintf(&sb, "// Run: cd /verif && bin/gosmt replay <this file>\n")
	fmt.Fprintf(&sb, "func TestVerifReplay_%s(t *testing.T) {\n", name)
	sb.WriteString("\tdefer func() {\n\t\tr := recover()\n")
	fmt.Fprintf(&sb, "\t\tfmt.Printf(\"VREPLAY %s %%v\\n\", r)\n", name)
	sb.WriteString("\t\tif r != nil {\n\t\t\tt.Fatalf(\"%v\", r)\n\t\t}\n\t}()\n")
	sb.WriteString("\tvSetVector([]uint64{")
	for i, x := range v.Vector {
		if i > 0 {
			sb.WriteString(", ")
		}
		fmt.Fprintf(&sb, "%#x", x)
	}
	sb.WriteString("})\n")
	sb.WriteString("\tvOpenKnown = map[string]bool{")
	for i, k := range openKnown {
		if i > 0 {
			sb.WriteString(", ")
		}
		fmt.Fprintf(&sb, "%q: true", k)
	}
	sb.WriteString("}\n")
	switch v.Kind {
	case "assert":
		fmt.Fprintf(&sb, "\tvTarget = %q\n", v.ID)
	case "panic":
		sb.WriteString("\tvTarget = \"(go panic expected)\"\n")
	default:
		sb.WriteString("\tvTarget = \"\"\n")
	}
	fmt.Fprintf(&sb, "\t%s(", v.Harness)
	for i, a := range v.Args {
		if i > 0 {
			sb.WriteString(", ")
		}
		fmt.Fprintf(&sb, "%d", a)
	}
	sb.WriteString(")\n}\n")
	return sb.String()
}

var replayLine = regexp.MustCompile(`(?m)^VREPLAY (\S+) (.*)$`)

// runReplays compiles all cases into one test binary and runs them.
func runReplays(cases []*ReplayCase, openKnown []string, extraReplace map[string]string) error {
	if len(cases) == 0 {
		return nil
	}
	testFiles := map[string]string{}
	var names []string
	for _, c := range cases {
		src := genReplayTest(c.Name, c.V, openKnown)
		p := filepath.Join(outDir(), "replay", c.Name+"_test.go")
		if err := os.WriteFile(p, []byte(src), 0o644); err != nil {
			return err
		}
		c.Path = p
		testFiles[filepath.Join(repoDir, "zz_verif_replay_"+c.Name+"_test.go")] = p
		names = append(names, "TestVerifReplay_"+c.Name)
	}
	ov, err := writeOverlayJSON(testFiles, extraReplace)
	if err != nil {
		return err
	}
	defer os.Remove(ov)
	out, err := goTest(ov, "^("+strings.Join(names, "|")+")$", 10*time.Minute)
	outs := map[string]string{}
	for _, m := range replayLine.FindAllStringSubmatch(out, -1) {
		outs[m[1]] = m[2]
	}
	for _, c := range cases {
		o, ok := outs[c.Name]
		if !ok {
			c.Outcome = "no result (build or run failure): " + firstLines(out, 6)
			continue
		}
		c.Outcome = o
		switch c.V.Kind {
		case "assert":
			c.Reproduced = strings.Contains(o, "VASSERT-FAIL "+c.V.ID)
		case "panic":
			c.Reproduced = o != "<nil>" && !strings.Contains(o, "VASSUME-FAIL") && !strings.Contains(o, "VASSERT-FAIL")
		}
	}
	_ = err
	return nil
}

func goTest(overlay, runPat string, timeout time.Duration) (string, error) {
	cmd := exec.Command("go", "test", "-vet=off", "-count=1", "-v", "-overlay", overlay, "-run", runPat, "-timeout", "9m", ".")
	cmd.Dir = repoDir
	cmd.Env = append(os.Environ(), "GOFLAGS=-mod=mod", "GOPROXY=off", "GOSUMDB=off", "GOTOOLCHAIN=local")
	var buf bytes.Buffer
	cmd.Stdout = &buf
	cmd.Stderr = &buf
	done := make(chan error, 1)
	if err := cmd.Start(); err != nil {
		return "", err
	}
	go func() { done <- cmd.Wait() }()
	select {
	case err := <-done:
		return buf.String(), err
	case <-time.After(timeout):
		cmd.Process.Kill()
		return buf.String(), fmt.Errorf("timeout")
	}
}

func firstLines(s string, n int) string {
	ls := strings.Split(s, "\n")
	if len(ls) > n {
		ls = ls[:n]
	}
	return strings.Join(ls, " | ")
}

// replayFile re-runs a previously generated replay test file
func replayFile(path string) int {
	base := strings.TrimSuffix(filepath.Base(path), "_test.go")
	testFiles := map[string]string{filepath.Join(repoDir, "zz_verif_replay_"+base+"_test.go"): path}
	ov, err := writeOverlayJSON(testFiles, nil)
	if err != nil {
		fmt.Fprintln(os.Stderr, err)
		return 2
	}
	defer os.Remove(ov)
	out, _ := goTest(ov, "^TestVerifReplay_"+regexp.QuoteMeta(base)+"$", 10*time.Minute)
	fmt.Print(out)
	if strings.Contains(out, "VREPLAY "+base+" <nil>") {
		return 0
	}
	return 1
}
