package main

import (
	"fmt"
	"go/types"

	"golang.org/x/tools/go/ssa"
)

// Value is one of:
//
//	*Term            bool / integer / float scalar (possibly symbolic)
//	string           Go string (always concrete)
//	*Value  (Ptr)    pointer to a slot (nil pointer = (*Value)(nil))
//	Struct, Array    aggregates held by value (copied on load/store)
//	SliceV           Go slice sharing a backing []Value
//	Iface            interface value (T==nil: nil interface)
//	*MapV            map (nil map = (*MapV)(nil))
//	*Closure, *ssa.Function, *ssa.Builtin   function values
//	Tuple            multi-value
//	*MapIter, *StrIter  range iterators
type Value interface{}

type Struct []Value
type Array []Value
type SliceV []Value
type Tuple []Value

type Iface struct {
	T types.Type
	V Value
}

type Closure struct {
	Fn  *ssa.Function
	Env []Value
}

// BoundMethod is a method value whose receiver is bound (ssa makes these via $bound wrappers, kept for safety)
type mapEnt struct {
	k Value
	v Value
}

type MapV struct {
	ents []*mapEnt
}

type MapIter struct {
	ents []*mapEnt
	i    int
}

type StrIter struct {
	s string
	i int
}

// Opaque is a placeholder for values produced by unsupported code in lenient mode
type Opaque struct{ what string }

func copyVal(v Value) Value {
	switch x := v.(type) {
	case Struct:
		n := make(Struct, len(x))
		for i := range x {
			n[i] = copyVal(x[i])
		}
		return n
	case Array:
		n := make(Array, len(x))
		for i := range x {
			n[i] = copyVal(x[i])
		}
		return n
	}
	return v
}

func (w *Worker) zero(t types.Type) Value {
	switch u := t.Underlying().(type) {
	case *types.Basic:
		switch {
		case u.Info()&types.IsBoolean != 0:
			return w.tt.False
		case u.Info()&types.IsInteger != 0:
			return w.tt.BV(0, intWidth(u))
		case u.Info()&types.IsFloat != 0:
			return w.tt.FP(0)
		case u.Info()&types.IsString != 0:
			return ""
		case u.Kind() == types.UnsafePointer:
			return (*Value)(nil)
		case u.Kind() == types.UntypedNil:
			return nil
		}
		panic(fmt.Sprintf("zero: unsupported basic %v", u))
	case *types.Pointer:
		return (*Value)(nil)
	case *types.Struct:
		s := make(Struct, u.NumFields())
		for i := range s {
			s[i] = w.zero(u.Field(i).Type())
		}
		return s
	case *types.Array:
		a := make(Array, int(u.Len()))
		if len(a) > 0 {
			z := w.zero(u.Elem())
			switch z.(type) {
			case Struct, Array:
				for i := range a {
					a[i] = w.zero(u.Elem())
				}
			default:
				for i := range a {
					a[i] = z
				}
			}
		}
		return a
	case *types.Slice:
		return SliceV(nil)
	case *types.Map:
		return (*MapV)(nil)
	case *types.Interface:
		return Iface{}
	case *types.Signature:
		return (*Closure)(nil)
	case *types.Chan:
		return (*Value)(nil)
	case *types.Tuple:
		tu := make(Tuple, u.Len())
		for i := range tu {
			tu[i] = w.zero(u.At(i).Type())
		}
		return tu
	}
	panic(fmt.Sprintf("zero: unsupported type %v", t))
}

func intWidth(b *types.Basic) int {
	switch b.Kind() {
	case types.Int8, types.Uint8:
		return 8
	case types.Int16, types.Uint16:
		return 16
	case types.Int32, types.Uint32:
		return 32
	case types.Int, types.Int64, types.Uint, types.Uint64, types.Uintptr, types.UntypedInt, types.UntypedRune:
		return 64
	}
	panic(fmt.Sprintf("intWidth: %v", b))
}

func isSigned(t types.Type) bool {
	b, ok := t.Underlying().(*types.Basic)
	return ok && b.Info()&types.IsInteger != 0 && b.Info()&types.IsUnsigned == 0
}

func isInt(t types.Type) bool {
	b, ok := t.Underlying().(*types.Basic)
	return ok && b.Info()&types.IsInteger != 0
}
func isFloat(t types.Type) bool {
	b, ok := t.Underlying().(*types.Basic)
	return ok && b.Info()&types.IsFloat != 0
}
func isBool(t types.Type) bool {
	b, ok := t.Underlying().(*types.Basic)
	return ok && b.Info()&types.IsBoolean != 0
}
func isString(t types.Type) bool {
	b, ok := t.Underlying().(*types.Basic)
	return ok && b.Info()&types.IsString != 0
}

// storeInto writes v into the slot, element-wise for aggregates so that interior pointers stay valid.
func (w *Worker) storeInto(dst *Value, v Value) {
	switch x := v.(type) {
	case Struct:
		if d, ok := (*dst).(Struct); ok && len(d) == len(x) {
			for i := range x {
				w.storeInto(&d[i], x[i])
			}
			return
		}
		w.setSlot(dst, copyVal(x))
	case Array:
		if d, ok := (*dst).(Array); ok && len(d) == len(x) {
			for i := range x {
				w.storeInto(&d[i], x[i])
			}
			return
		}
		w.setSlot(dst, copyVal(x))
	default:
		w.setSlot(dst, v)
	}
}

// setSlot is the single place where heap slots are mutated (journaled while merging)
func (w *Worker) setSlot(dst *Value, v Value) {
	if w.journalOn {
		w.journal = append(w.journal, jent{dst, *dst})
	}
	*dst = v
}

type jent struct {
	p   *Value
	old Value
}
