package main

// Hash-consed SMT terms (Bool, BitVec<=64, Float64) with a constructor-time simplifier,
// a concrete evaluator and an SMT-LIB2 printer.

import (
	"fmt"
	"math"
	"math/bits"
	"strings"
)

type Kind uint8

const (
	KBool Kind = iota
	KBV
	KFP // float64
)

type Op uint8

const (
	OConst Op = iota
	OVar
	ONot
	OAnd
	OOr
	OIte
	OEq
	OAdd
	OSub
	OMul
	OUDiv
	OURem
	OSDiv
	OSRem
	OBAnd
	OBOr
	OBXor
	OBNot
	ONeg
	OShl
	OLshr
	OAshr
	OUlt
	OUle
	OSlt
	OSle
	OConcat
	OExtract // p1=hi p2=lo
	OZext    // to width w
	OSext
	OFAdd
	OFSub
	OFMul
	OFDiv
	OFNeg
	OFLt
	OFLe
	OFEq
	OSToF // signed bv -> fp
	OUToF // unsigned bv -> fp
	OFToS // fp -> signed bv (RTZ), width w
	OFToU
)

var opNames = map[Op]string{
	ONot: "not", OAnd: "and", OOr: "or", OIte: "ite", OEq: "=",
	OAdd: "bvadd", OSub: "bvsub", OMul: "bvmul", OUDiv: "bvudiv", OURem: "bvurem", OSDiv: "bvsdiv", OSRem: "bvsrem",
	OBAnd: "bvand", OBOr: "bvor", OBXor: "bvxor", OBNot: "bvnot", ONeg: "bvneg", OShl: "bvshl", OLshr: "bvlshr", OAshr: "bvashr",
	OUlt: "bvult", OUle: "bvule", OSlt: "bvslt", OSle: "bvsle", OConcat: "concat",
	OFAdd: "fp.add RNE", OFSub: "fp.sub RNE", OFMul: "fp.mul RNE", OFDiv: "fp.div RNE", OFNeg: "fp.neg",
	OFLt: "fp.lt", OFLe: "fp.leq", OFEq: "fp.eq",
}

type Term struct {
	id   int32
	op   Op
	kind Kind
	w    uint8 // bit width for KBV
	p1   uint8
	p2   uint8
	val  uint64 // const payload
	args [3]*Term
	na   uint8
	name string
	size int32 // DAG-unaware node count (saturating), used for stats
	sym  bool  // contains a variable
}

func (t *Term) IsConst() bool { return t.op == OConst }
func (t *Term) Width() int    { return int(t.w) }

type termKey struct {
	op         Op
	kind       Kind
	w, p1, p2  uint8
	val        uint64
	a0, a1, a2 int32
	name       string
}

type TermTable struct {
	m     map[termKey]*Term
	next  int32
	vars  []*Term
	True  *Term
	False *Term
}

func NewTermTable() *TermTable {
	tt := &TermTable{m: map[termKey]*Term{}}
	tt.True = tt.mk(&Term{op: OConst, kind: KBool, val: 1})
	tt.False = tt.mk(&Term{op: OConst, kind: KBool, val: 0})
	return tt
}

func (tt *TermTable) mk(t *Term) *Term {
	k := termKey{op: t.op, kind: t.kind, w: t.w, p1: t.p1, p2: t.p2, val: t.val, name: t.name, a0: -1, a1: -1, a2: -1}
	if t.na > 0 {
		k.a0 = t.args[0].id
	}
	if t.na > 1 {
		k.a1 = t.args[1].id
	}
	if t.na > 2 {
		k.a2 = t.args[2].id
	}
	if e, ok := tt.m[k]; ok {
		return e
	}
	t.id = tt.next
	tt.next++
	sz := int64(1)
	for i := 0; i < int(t.na); i++ {
		sz += int64(t.args[i].size)
		if t.args[i].sym {
			t.sym = true
		}
	}
	if t.op == OVar {
		t.sym = true
	}
	if sz > 1<<30 {
		sz = 1 << 30
	}
	t.size = int32(sz)
	tt.m[k] = t
	return t
}

func mask(w int) uint64 {
	if w >= 64 {
		return ^uint64(0)
	}
	return (uint64(1) << uint(w)) - 1
}

func (tt *TermTable) Bool(b bool) *Term {
	if b {
		return tt.True
	}
	return tt.False
}

func (tt *TermTable) BV(v uint64, w int) *Term {
	return tt.mk(&Term{op: OConst, kind: KBV, w: uint8(w), val: v & mask(w)})
}

func (tt *TermTable) FP(f float64) *Term {
	return tt.mk(&Term{op: OConst, kind: KFP, val: math.Float64bits(f)})
}

func (tt *TermTable) Var(name string, kind Kind, w int) *Term {
	n := len(tt.m)
	t := tt.mk(&Term{op: OVar, kind: kind, w: uint8(w), name: name})
	if len(tt.m) != n {
		tt.vars = append(tt.vars, t)
	}
	return t
}

func sext64(v uint64, w int) int64 {
	if w >= 64 {
		return int64(v)
	}
	sh := uint(64 - w)
	return int64(v<<sh) >> sh
}

func (tt *TermTable) un(op Op, kind Kind, w int, a *Term) *Term {
	t := &Term{op: op, kind: kind, w: uint8(w), na: 1}
	t.args[0] = a
	return tt.mk(t)
}
func (tt *TermTable) bin(op Op, kind Kind, w int, a, b *Term) *Term {
	t := &Term{op: op, kind: kind, w: uint8(w), na: 2}
	t.args[0], t.args[1] = a, b
	return tt.mk(t)
}

// ---------- Bool ----------

func (tt *TermTable) Not(a *Term) *Term {
	if a.IsConst() {
		return tt.Bool(a.val == 0)
	}
	if a.op == ONot {
		return a.args[0]
	}
	return tt.un(ONot, KBool, 0, a)
}

func (tt *TermTable) And(a, b *Term) *Term {
	if a.IsConst() {
		if a.val == 0 {
			return tt.False
		}
		return b
	}
	if b.IsConst() {
		if b.val == 0 {
			return tt.False
		}
		return a
	}
	if a == b {
		return a
	}
	if (a.op == ONot && a.args[0] == b) || (b.op == ONot && b.args[0] == a) {
		return tt.False
	}
	if a.id > b.id {
		a, b = b, a
	}
	return tt.bin(OAnd, KBool, 0, a, b)
}

func (tt *TermTable) Or(a, b *Term) *Term {
	if a.IsConst() {
		if a.val == 1 {
			return tt.True
		}
		return b
	}
	if b.IsConst() {
		if b.val == 1 {
			return tt.True
		}
		return a
	}
	if a == b {
		return a
	}
	if (a.op == ONot && a.args[0] == b) || (b.op == ONot && b.args[0] == a) {
		return tt.True
	}
	if a.id > b.id {
		a, b = b, a
	}
	return tt.bin(OOr, KBool, 0, a, b)
}

func (tt *TermTable) Implies(a, b *Term) *Term { return tt.Or(tt.Not(a), b) }

func (tt *TermTable) Ite(c, a, b *Term) *Term {
	if c.IsConst() {
		if c.val == 1 {
			return a
		}
		return b
	}
	if a == b {
		return a
	}
	if a.kind != b.kind || a.w != b.w {
		panic(fmt.Sprintf("ite sort mismatch %v/%d vs %v/%d", a.kind, a.w, b.kind, b.w))
	}
	if a.kind == KBool {
		if a.IsConst() && b.IsConst() {
			if a.val == 1 {
				return c
			}
			return tt.Not(c)
		}
		if a.IsConst() {
			if a.val == 1 {
				return tt.Or(c, b)
			}
			return tt.And(tt.Not(c), b)
		}
		if b.IsConst() {
			if b.val == 1 {
				return tt.Or(tt.Not(c), a)
			}
			return tt.And(c, a)
		}
	}
	if c.op == ONot {
		return tt.Ite(c.args[0], b, a)
	}
	// ite(c, ite(c, x, y), z) = ite(c, x, z)
	if a.op == OIte && a.args[0] == c {
		a = a.args[1]
	}
	if b.op == OIte && b.args[0] == c {
		b = b.args[2]
	}
	if a == b {
		return a
	}
	t := &Term{op: OIte, kind: a.kind, w: a.w, na: 3}
	t.args[0], t.args[1], t.args[2] = c, a, b
	return tt.mk(t)
}

func (tt *TermTable) Eq(a, b *Term) *Term {
	if a == b {
		if a.kind != KFP {
			return tt.True
		}
	}
	if a.kind != b.kind || a.w != b.w {
		panic(fmt.Sprintf("eq sort mismatch %v/%d vs %v/%d", a.kind, a.w, b.kind, b.w))
	}
	if a.kind == KFP {
		return tt.FCmp(OFEq, a, b)
	}
	if a.IsConst() && b.IsConst() {
		return tt.Bool(a.val == b.val)
	}
	if a.kind == KBool {
		if a.IsConst() {
			a, b = b, a
		}
		if b.IsConst() {
			if b.val == 1 {
				return a
			}
			return tt.Not(a)
		}
	}
	if a.IsConst() {
		a, b = b, a
	}
	if b.IsConst() && a.kind == KBV {
		// (zext x) == c
		if a.op == OZext {
			iw := int(a.args[0].w)
			if b.val&^mask(iw) != 0 {
				return tt.False
			}
			return tt.Eq(a.args[0], tt.BV(b.val, iw))
		}
		// ite(c, k1, k2) == k
		if a.op == OIte && a.args[1].IsConst() && a.args[2].IsConst() {
			e1 := a.args[1].val == b.val
			e2 := a.args[2].val == b.val
			switch {
			case e1 && e2:
				return tt.True
			case e1:
				return a.args[0]
			case e2:
				return tt.Not(a.args[0])
			default:
				return tt.False
			}
		}
		// concat(hi, lo) == c
		if a.op == OConcat {
			lw := int(a.args[1].w)
			return tt.And(tt.Eq(a.args[0], tt.BV(b.val>>uint(lw), int(a.args[0].w))), tt.Eq(a.args[1], tt.BV(b.val, lw)))
		}
	}
	if !b.IsConst() && a.id > b.id {
		a, b = b, a
	}
	return tt.bin(OEq, KBool, 0, a, b)
}

// ---------- BV ----------

func (tt *TermTable) checkBin(a, b *Term) {
	if a.kind != KBV || b.kind != KBV || a.w != b.w {
		panic(fmt.Sprintf("bv binop sort mismatch %v/%d vs %v/%d", a.kind, a.w, b.kind, b.w))
	}
}

func foldBin(op Op, x, y uint64, w int) (uint64, bool) {
	m := mask(w)
	switch op {
	case OAdd:
		return (x + y) & m, true
	case OSub:
		return (x - y) & m, true
	case OMul:
		return (x * y) & m, true
	case OUDiv:
		if y == 0 {
			return m, true
		}
		return x / y, true
	case OURem:
		if y == 0 {
			return x, true
		}
		return x % y, true
	case OSDiv:
		sx, sy := sext64(x, w), sext64(y, w)
		if sy == 0 {
			if sx >= 0 {
				return m, true
			}
			return 1, true
		}
		if sy == -1 {
			return uint64(-sx) & m, true
		}
		return uint64(sx/sy) & m, true
	case OSRem:
		sx, sy := sext64(x, w), sext64(y, w)
		if sy == 0 {
			return x, true
		}
		if sy == -1 {
			return 0, true
		}
		return uint64(sx%sy) & m, true
	case OBAnd:
		return x & y, true
	case OBOr:
		return x | y, true
	case OBXor:
		return x ^ y, true
	case OShl:
		if y >= uint64(w) {
			return 0, true
		}
		return (x << y) & m, true
	case OLshr:
		if y >= uint64(w) {
			return 0, true
		}
		return x >> y, true
	case OAshr:
		sx := sext64(x, w)
		if y >= uint64(w) {
			y = uint64(w - 1)
		}
		return uint64(sx>>y) & m, true
	}
	return 0, false
}

func (tt *TermTable) BinBV(op Op, a, b *Term) *Term {
	tt.checkBin(a, b)
	w := int(a.w)
	if a.IsConst() && b.IsConst() {
		if v, ok := foldBin(op, a.val, b.val, w); ok {
			return tt.BV(v, w)
		}
	}
	m := mask(w)
	switch op {
	case OAdd:
		if a.IsConst() {
			a, b = b, a
		}
		if b.IsConst() {
			if b.val == 0 {
				return a
			}
			// (x + c1) + c2
			if a.op == OAdd && a.args[1].IsConst() {
				return tt.BinBV(OAdd, a.args[0], tt.BV(a.args[1].val+b.val, w))
			}
			if a.op == OSub && a.args[1].IsConst() {
				return tt.BinBV(OAdd, a.args[0], tt.BV(b.val-a.args[1].val, w))
			}
		}
	case OSub:
		if b.IsConst() {
			if b.val == 0 {
				return a
			}
			return tt.BinBV(OAdd, a, tt.BV(-b.val, w))
		}
		if a == b {
			return tt.BV(0, w)
		}
	case OMul:
		if a.IsConst() {
			a, b = b, a
		}
		if b.IsConst() {
			if b.val == 0 {
				return b
			}
			if b.val == 1 {
				return a
			}
		}
	case OUDiv:
		if b.IsConst() && b.val == 1 {
			return a
		}
	case OBAnd:
		if a.IsConst() {
			a, b = b, a
		}
		if b.IsConst() {
			if b.val == 0 {
				return b
			}
			if b.val == m {
				return a
			}
			if a.op == OBAnd && a.args[1].IsConst() {
				return tt.BinBV(OBAnd, a.args[0], tt.BV(a.args[1].val&b.val, w))
			}
			// low-bit mask over a zero-extended narrower value
			if a.op == OZext && b.val&mask(int(a.args[0].w)) == mask(int(a.args[0].w)) {
				return a
			}
			// contiguous low mask -> zext(extract)
			if b.val&(b.val+1) == 0 {
				k := bits.Len64(b.val)
				return tt.Zext(tt.Extract(a, k-1, 0), w)
			}
			// single contiguous run of ones: mask = ones(k)<<s
			if s := bits.TrailingZeros64(b.val); s > 0 {
				r := b.val >> uint(s)
				if r&(r+1) == 0 {
					k := bits.Len64(r)
					mid := tt.Extract(a, s+k-1, s)
					return tt.Zext(tt.Concat(mid, tt.BV(0, s)), w)
				}
			}
		}
		if a == b {
			return a
		}
	case OBOr:
		if a.IsConst() {
			a, b = b, a
		}
		if b.IsConst() {
			if b.val == 0 {
				return a
			}
			if b.val == m {
				return b
			}
		}
		if a == b {
			return a
		}
		if r := tt.orDisjoint(a, b); r != nil {
			return r
		}
	case OBXor:
		if a.IsConst() {
			a, b = b, a
		}
		if b.IsConst() && b.val == 0 {
			return a
		}
		if a == b {
			return tt.BV(0, w)
		}
	case OShl:
		if b.IsConst() {
			if b.val == 0 {
				return a
			}
			if b.val >= uint64(w) {
				return tt.BV(0, w)
			}
			s := int(b.val)
			return tt.Concat(tt.Extract(a, w-1-s, 0), tt.BV(0, s))
		}
	case OLshr:
		if b.IsConst() {
			if b.val == 0 {
				return a
			}
			if b.val >= uint64(w) {
				return tt.BV(0, w)
			}
			s := int(b.val)
			return tt.Zext(tt.Extract(a, w-1, s), w)
		}
	case OAshr:
		if b.IsConst() {
			if b.val == 0 {
				return a
			}
			s := int(b.val)
			if s >= w {
				s = w - 1
			}
			return tt.Sext(tt.Extract(a, w-1, s), w)
		}
	}
	switch op {
	case OAdd, OMul, OBAnd, OBOr, OBXor:
		if !b.IsConst() && a.id > b.id {
			a, b = b, a
		}
	}
	return tt.bin(op, KBV, w, a, b)
}

// knownZero returns a mask of bits that are certainly zero in t (cheap, shallow)
func knownZero(t *Term, depth int) uint64 {
	w := int(t.w)
	m := mask(w)
	switch t.op {
	case OConst:
		return ^t.val & m
	case OZext:
		iw := int(t.args[0].w)
		z := m &^ mask(iw)
		if depth > 0 {
			z |= knownZero(t.args[0], depth-1)
		}
		return z
	case OConcat:
		if depth > 0 {
			lw := uint(t.args[1].w)
			return (knownZero(t.args[0], depth-1)<<lw | knownZero(t.args[1], depth-1)) & m
		}
	case OBAnd:
		if depth > 0 {
			return knownZero(t.args[0], depth-1) | knownZero(t.args[1], depth-1)
		}
	case OBOr, OBXor:
		if depth > 0 {
			return knownZero(t.args[0], depth-1) & knownZero(t.args[1], depth-1)
		}
	case OIte:
		if depth > 0 {
			return knownZero(t.args[1], depth-1) & knownZero(t.args[2], depth-1)
		}
	}
	return 0
}

// slices of a term as (term, hi, lo) pieces covering w bits, when it is a concat/zext/const tree
type piece struct {
	t  *Term // nil => zero bits
	n  int   // width
	lo int   // offset inside result
}

func (tt *TermTable) pieces(t *Term, depth int) []piece {
	w := int(t.w)
	switch t.op {
	case OConst:
		if t.val == 0 {
			return []piece{{nil, w, 0}}
		}
	case OZext:
		iw := int(t.args[0].w)
		in := tt.pieces(t.args[0], depth-1)
		return append(in, piece{nil, w - iw, iw})
	case OConcat:
		if depth > 0 {
			lo := tt.pieces(t.args[1], depth-1)
			hi := tt.pieces(t.args[0], depth-1)
			lw := int(t.args[1].w)
			for _, p := range hi {
				lo = append(lo, piece{p.t, p.n, p.lo + lw})
			}
			return lo
		}
	}
	return []piece{{t, w, 0}}
}

// orDisjoint: a|b where the non-zero bit ranges do not overlap -> concat tree
func (tt *TermTable) orDisjoint(a, b *Term) *Term {
	w := int(a.w)
	za, zb := knownZero(a, 6), knownZero(b, 6)
	if (za|zb)&mask(w) != mask(w) {
		return nil
	}
	pa, pb := tt.pieces(a, 6), tt.pieces(b, 6)
	// build bit-owner map by boundaries
	type seg struct {
		lo, n int
		t     *Term
		off   int // offset inside t
	}
	var segs []seg
	for _, ps := range [][]piece{pa, pb} {
		for _, p := range ps {
			if p.t != nil {
				// p.t may itself have known zeros but we treat it as opaque owner
				segs = append(segs, seg{p.lo, p.n, p.t, 0})
			}
		}
	}
	// check no overlap between opaque owners
	for i := range segs {
		for j := i + 1; j < len(segs); j++ {
			if segs[i].lo < segs[j].lo+segs[j].n && segs[j].lo < segs[i].lo+segs[i].n {
				return nil
			}
		}
	}
	// sort by lo
	for i := 1; i < len(segs); i++ {
		for j := i; j > 0 && segs[j].lo < segs[j-1].lo; j-- {
			segs[j], segs[j-1] = segs[j-1], segs[j]
		}
	}
	var res *Term
	pos := 0
	add := func(t *Term) {
		if res == nil {
			res = t
		} else {
			res = tt.Concat(t, res)
		}
	}
	for _, s := range segs {
		if s.lo > pos {
			add(tt.BV(0, s.lo-pos))
		}
		add(s.t)
		pos = s.lo + s.n
	}
	if pos < w {
		add(tt.BV(0, w-pos))
	}
	if res == nil {
		return tt.BV(0, w)
	}
	return res
}

func (tt *TermTable) BNot(a *Term) *Term {
	if a.IsConst() {
		return tt.BV(^a.val, int(a.w))
	}
	if a.op == OBNot {
		return a.args[0]
	}
	return tt.un(OBNot, KBV, int(a.w), a)
}

func (tt *TermTable) Neg(a *Term) *Term {
	if a.IsConst() {
		return tt.BV(-a.val, int(a.w))
	}
	return tt.un(ONeg, KBV, int(a.w), a)
}

func (tt *TermTable) Cmp(op Op, a, b *Term) *Term {
	tt.checkBin(a, b)
	w := int(a.w)
	if a.IsConst() && b.IsConst() {
		switch op {
		case OUlt:
			return tt.Bool(a.val < b.val)
		case OUle:
			return tt.Bool(a.val <= b.val)
		case OSlt:
			return tt.Bool(sext64(a.val, w) < sext64(b.val, w))
		case OSle:
			return tt.Bool(sext64(a.val, w) <= sext64(b.val, w))
		}
	}
	if a == b {
		return tt.Bool(op == OUle || op == OSle)
	}
	switch op {
	case OUlt:
		if b.IsConst() && b.val == 0 {
			return tt.False
		}
		if a.IsConst() && a.val == 0 { // 0 < b  <=> b != 0
			return tt.Not(tt.Eq(b, a))
		}
		if b.IsConst() && b.val == 1 {
			return tt.Eq(a, tt.BV(0, w))
		}
	case OUle:
		if a.IsConst() && a.val == 0 {
			return tt.True
		}
		if b.IsConst() && b.val == mask(w) {
			return tt.True
		}
		if b.IsConst() && b.val == 0 {
			return tt.Eq(a, b)
		}
	}
	// zero-extended value against a constant beyond its range
	if (op == OUlt || op == OUle) && a.op == OZext && b.IsConst() && b.val > mask(int(a.args[0].w)) {
		return tt.True
	}
	if (op == OUlt || op == OUle) && b.op == OZext && a.IsConst() && a.val > mask(int(b.args[0].w)) {
		return tt.False
	}
	if (op == OSlt || op == OSle) && a.op == OZext && a.w > a.args[0].w && b.IsConst() && sext64(b.val, w) > int64(mask(int(a.args[0].w))) {
		return tt.True
	}
	if (op == OSlt || op == OSle) && b.op == OZext && b.w > b.args[0].w && a.IsConst() && sext64(a.val, w) > int64(mask(int(b.args[0].w))) {
		return tt.False
	}
	if (op == OSlt || op == OSle) && b.op == OZext && b.w > b.args[0].w && a.IsConst() && sext64(a.val, w) < 0 {
		return tt.True
	}
	if (op == OSlt || op == OSle) && a.op == OZext && a.w > a.args[0].w && b.IsConst() && sext64(b.val, w) < 0 {
		return tt.False
	}
	// comparisons of zero-extended values against constants: narrow
	if a.op == OZext && b.IsConst() || b.op == OZext && a.IsConst() {
		signedOK := true
		var z, c *Term
		if a.op == OZext {
			z, c = a, b
		} else {
			z, c = b, a
		}
		iw := int(z.args[0].w)
		if iw < w {
			// both are non-negative in signed view iff c has top bit clear
			if op == OSlt || op == OSle {
				signedOK = sext64(c.val, w) >= 0
			}
			if signedOK && c.val <= mask(iw) {
				uop := op
				if op == OSlt {
					uop = OUlt
				} else if op == OSle {
					uop = OUle
				}
				cc := tt.BV(c.val, iw)
				if a.op == OZext {
					return tt.Cmp(uop, z.args[0], cc)
				}
				return tt.Cmp(uop, cc, z.args[0])
			}
		}
	}
	return tt.bin(op, KBool, 0, a, b)
}

func (tt *TermTable) Concat(hi, lo *Term) *Term {
	w := int(hi.w) + int(lo.w)
	if w > 64 {
		panic("concat wider than 64")
	}
	if hi.IsConst() && lo.IsConst() {
		return tt.BV(hi.val<<uint(lo.w)|lo.val, w)
	}
	if hi.IsConst() && hi.val == 0 {
		return tt.Zext(lo, w)
	}
	// concat(extract(x,h,m+1), extract(x,m,l)) = extract(x,h,l)
	if hi.op == OExtract && lo.op == OExtract && hi.args[0] == lo.args[0] && int(hi.p2) == int(lo.p1)+1 {
		return tt.Extract(hi.args[0], int(hi.p1), int(lo.p2))
	}
	// concat(hi, concat(m, lo)) with hi,m adjacent extracts
	if lo.op == OConcat && hi.op == OExtract && lo.args[0].op == OExtract && hi.args[0] == lo.args[0].args[0] && int(hi.p2) == int(lo.args[0].p1)+1 {
		return tt.Concat(tt.Extract(hi.args[0], int(hi.p1), int(lo.args[0].p2)), lo.args[1])
	}
	if hi.op == OConcat && hi.args[1].op == OExtract && lo.op == OExtract && hi.args[1].args[0] == lo.args[0] && int(hi.args[1].p2) == int(lo.p1)+1 {
		return tt.Concat(hi.args[0], tt.Extract(lo.args[0], int(hi.args[1].p1), int(lo.p2)))
	}
	if hi.op == OConcat && hi.args[1].IsConst() && lo.IsConst() {
		return tt.Concat(hi.args[0], tt.BV(hi.args[1].val<<uint(lo.w)|lo.val, int(hi.args[1].w)+int(lo.w)))
	}
	return tt.bin(OConcat, KBV, w, hi, lo)
}

func (tt *TermTable) Extract(a *Term, hi, lo int) *Term {
	w := int(a.w)
	if hi >= w || lo < 0 || hi < lo {
		panic(fmt.Sprintf("bad extract [%d:%d] of width %d", hi, lo, w))
	}
	if lo == 0 && hi == w-1 {
		return a
	}
	n := hi - lo + 1
	switch a.op {
	case OConst:
		return tt.BV(a.val>>uint(lo), n)
	case OExtract:
		return tt.Extract(a.args[0], int(a.p2)+hi, int(a.p2)+lo)
	case OZext:
		iw := int(a.args[0].w)
		if lo >= iw {
			return tt.BV(0, n)
		}
		if hi < iw {
			return tt.Extract(a.args[0], hi, lo)
		}
		return tt.Zext(tt.Extract(a.args[0], iw-1, lo), n)
	case OSext:
		iw := int(a.args[0].w)
		if hi < iw {
			return tt.Extract(a.args[0], hi, lo)
		}
	case OConcat:
		lw := int(a.args[1].w)
		if hi < lw {
			return tt.Extract(a.args[1], hi, lo)
		}
		if lo >= lw {
			return tt.Extract(a.args[0], hi-lw, lo-lw)
		}
		return tt.Concat(tt.Extract(a.args[0], hi-lw, 0), tt.Extract(a.args[1], lw-1, lo))
	case OBAnd, OBOr, OBXor:
		// push extract through bitwise ops when one side is constant (keeps masks small)
		if a.args[1].IsConst() || a.args[0].IsConst() {
			return tt.BinBV(a.op, tt.Extract(a.args[0], hi, lo), tt.Extract(a.args[1], hi, lo))
		}
	case OIte:
		if a.args[1].IsConst() && a.args[2].IsConst() {
			return tt.Ite(a.args[0], tt.Extract(a.args[1], hi, lo), tt.Extract(a.args[2], hi, lo))
		}
	case OAdd, OSub, OMul:
		if lo == 0 && (a.args[0].op == OZext || a.args[0].op == OSext || a.args[0].IsConst()) && (a.args[1].op == OZext || a.args[1].op == OSext || a.args[1].IsConst()) {
			// low bits of arithmetic only depend on low bits of operands
			x, y := tt.Extract(a.args[0], hi, 0), tt.Extract(a.args[1], hi, 0)
			return tt.BinBV(a.op, x, y)
		}
	}
	t := &Term{op: OExtract, kind: KBV, w: uint8(n), p1: uint8(hi), p2: uint8(lo), na: 1}
	t.args[0] = a
	return tt.mk(t)
}

func (tt *TermTable) Zext(a *Term, w int) *Term {
	if int(a.w) == w {
		return a
	}
	if int(a.w) > w {
		panic("zext narrowing")
	}
	if a.IsConst() {
		return tt.BV(a.val, w)
	}
	if a.op == OZext {
		return tt.Zext(a.args[0], w)
	}
	return tt.un(OZext, KBV, w, a)
}

func (tt *TermTable) Sext(a *Term, w int) *Term {
	if int(a.w) == w {
		return a
	}
	if int(a.w) > w {
		panic("sext narrowing")
	}
	if a.IsConst() {
		return tt.BV(uint64(sext64(a.val, int(a.w))), w)
	}
	if a.op == OZext { // zero-extended value is non-negative
		return tt.Zext(a.args[0], w)
	}
	if a.op == OSext {
		return tt.Sext(a.args[0], w)
	}
	return tt.un(OSext, KBV, w, a)
}

// ---------- FP ----------

func (tt *TermTable) FBin(op Op, a, b *Term) *Term {
	if a.IsConst() && b.IsConst() {
		x, y := math.Float64frombits(a.val), math.Float64frombits(b.val)
		switch op {
		case OFAdd:
			return tt.FP(x + y)
		case OFSub:
			return tt.FP(x - y)
		case OFMul:
			return tt.FP(x * y)
		case OFDiv:
			return tt.FP(x / y)
		}
	}
	return tt.bin(op, KFP, 0, a, b)
}

func (tt *TermTable) FNeg(a *Term) *Term {
	if a.IsConst() {
		return tt.FP(-math.Float64frombits(a.val))
	}
	return tt.un(OFNeg, KFP, 0, a)
}

func (tt *TermTable) FCmp(op Op, a, b *Term) *Term {
	if a.IsConst() && b.IsConst() {
		x, y := math.Float64frombits(a.val), math.Float64frombits(b.val)
		switch op {
		case OFLt:
			return tt.Bool(x < y)
		case OFLe:
			return tt.Bool(x <= y)
		case OFEq:
			return tt.Bool(x == y)
		}
	}
	return tt.bin(op, KBool, 0, a, b)
}

func (tt *TermTable) IntToF(a *Term, signed bool) *Term {
	if a.IsConst() {
		if signed {
			return tt.FP(float64(sext64(a.val, int(a.w))))
		}
		return tt.FP(float64(a.val))
	}
	if signed {
		if a.op == OZext && a.w > a.args[0].w {
			return tt.un(OUToF, KFP, 0, a.args[0])
		}
		return tt.un(OSToF, KFP, 0, a)
	}
	if a.op == OZext {
		a = a.args[0]
	}
	return tt.un(OUToF, KFP, 0, a)
}

func (tt *TermTable) FToInt(a *Term, w int, signed bool) *Term {
	if a.IsConst() {
		f := math.Float64frombits(a.val)
		if signed {
			return tt.BV(uint64(int64(f)), w)
		}
		return tt.BV(uint64(f), w)
	}
	if signed {
		return tt.un(OFToS, KBV, w, a)
	}
	return tt.un(OFToU, KBV, w, a)
}

// ---------- evaluation ----------

type Model = map[string]uint64 // var name -> value

func (tt *TermTable) evalNamed(t *Term, m Model, memo map[int32]uint64) uint64 {
	if t.op == OConst {
		return t.val
	}
	if v, ok := memo[t.id]; ok {
		return v
	}
	var r uint64
	a := func(i int) uint64 { return tt.evalNamed(t.args[i], m, memo) }
	w := int(t.w)
	switch t.op {
	case OVar:
		r = m[t.name] & func() uint64 {
			if t.kind == KBV {
				return mask(w)
			}
			return ^uint64(0)
		}()
	case ONot:
		r = a(0) ^ 1
	case OAnd:
		r = a(0) & a(1)
	case OOr:
		r = a(0) | a(1)
	case OIte:
		if a(0) == 1 {
			r = a(1)
		} else {
			r = a(2)
		}
	case OEq:
		r = b2u(a(0) == a(1))
	case OAdd, OSub, OMul, OUDiv, OURem, OSDiv, OSRem, OBAnd, OBOr, OBXor, OShl, OLshr, OAshr:
		r, _ = foldBin(t.op, a(0), a(1), w)
	case OBNot:
		r = ^a(0) & mask(w)
	case ONeg:
		r = -a(0) & mask(w)
	case OUlt:
		r = b2u(a(0) < a(1))
	case OUle:
		r = b2u(a(0) <= a(1))
	case OSlt:
		aw := int(t.args[0].w)
		r = b2u(sext64(a(0), aw) < sext64(a(1), aw))
	case OSle:
		aw := int(t.args[0].w)
		r = b2u(sext64(a(0), aw) <= sext64(a(1), aw))
	case OConcat:
		r = a(0)<<uint(t.args[1].w) | a(1)
	case OExtract:
		r = (a(0) >> uint(t.p2)) & mask(w)
	case OZext:
		r = a(0)
	case OSext:
		r = uint64(sext64(a(0), int(t.args[0].w))) & mask(w)
	case OFAdd:
		r = math.Float64bits(math.Float64frombits(a(0)) + math.Float64frombits(a(1)))
	case OFSub:
		r = math.Float64bits(math.Float64frombits(a(0)) - math.Float64frombits(a(1)))
	case OFMul:
		r = math.Float64bits(math.Float64frombits(a(0)) * math.Float64frombits(a(1)))
	case OFDiv:
		r = math.Float64bits(math.Float64frombits(a(0)) / math.Float64frombits(a(1)))
	case OFNeg:
		r = math.Float64bits(-math.Float64frombits(a(0)))
	case OFLt:
		r = b2u(math.Float64frombits(a(0)) < math.Float64frombits(a(1)))
	case OFLe:
		r = b2u(math.Float64frombits(a(0)) <= math.Float64frombits(a(1)))
	case OFEq:
		r = b2u(math.Float64frombits(a(0)) == math.Float64frombits(a(1)))
	case OSToF:
		r = math.Float64bits(float64(sext64(a(0), int(t.args[0].w))))
	case OUToF:
		r = math.Float64bits(float64(a(0)))
	case OFToS:
		r = uint64(int64(math.Float64frombits(a(0)))) & mask(w)
	case OFToU:
		r = uint64(math.Float64frombits(a(0))) & mask(w)
	default:
		panic("eval: unknown op")
	}
	memo[t.id] = r
	return r
}

func b2u(b bool) uint64 {
	if b {
		return 1
	}
	return 0
}

// ---------- printing ----------

func sortStr(t *Term) string {
	switch t.kind {
	case KBool:
		return "Bool"
	case KBV:
		return fmt.Sprintf("(_ BitVec %d)", t.w)
	default:
		return "(_ FloatingPoint 11 53)"
	}
}

func constStr(t *Term) string {
	switch t.kind {
	case KBool:
		if t.val == 1 {
			return "true"
		}
		return "false"
	case KBV:
		if t.w%4 == 0 {
			return fmt.Sprintf("#x%0*x", int(t.w)/4, t.val)
		}
		return fmt.Sprintf("#b%0*b", int(t.w), t.val)
	default:
		return fmt.Sprintf("((_ to_fp 11 53) #x%016x)", t.val)
	}
}

// ref returns the name by which a term is referenced inside other definitions
func ref(t *Term) string {
	switch t.op {
	case OConst:
		return constStr(t)
	case OVar:
		return t.name
	}
	return fmt.Sprintf("t%d", t.id)
}

// body prints the one-level definition of a non-leaf term
func body(t *Term) string {
	var sb strings.Builder
	switch t.op {
	case OExtract:
		fmt.Fprintf(&sb, "((_ extract %d %d) %s)", t.p1, t.p2, ref(t.args[0]))
	case OZext:
		fmt.Fprintf(&sb, "((_ zero_extend %d) %s)", int(t.w)-int(t.args[0].w), ref(t.args[0]))
	case OSext:
		fmt.Fprintf(&sb, "((_ sign_extend %d) %s)", int(t.w)-int(t.args[0].w), ref(t.args[0]))
	case OSToF:
		fmt.Fprintf(&sb, "((_ to_fp 11 53) RNE %s)", ref(t.args[0]))
	case OUToF:
		fmt.Fprintf(&sb, "((_ to_fp_unsigned 11 53) RNE %s)", ref(t.args[0]))
	case OFToS:
		fmt.Fprintf(&sb, "((_ fp.to_sbv %d) RTZ %s)", t.w, ref(t.args[0]))
	case OFToU:
		fmt.Fprintf(&sb, "((_ fp.to_ubv %d) RTZ %s)", t.w, ref(t.args[0]))
	default:
		sb.WriteString("(")
		sb.WriteString(opNames[t.op])
		for i := 0; i < int(t.na); i++ {
			sb.WriteString(" ")
			sb.WriteString(ref(t.args[i]))
		}
		sb.WriteString(")")
	}
	return sb.String()
}

// String renders a term as a tree (debug / samples only; truncated)
func (t *Term) String() string {
	var sb strings.Builder
	var rec func(t *Term, d int)
	rec = func(t *Term, d int) {
		if sb.Len() > 400 {
			sb.WriteString("…")
			return
		}
		switch t.op {
		case OConst:
			sb.WriteString(constStr(t))
			return
		case OVar:
			sb.WriteString(t.name)
			return
		}
		if d > 6 {
			fmt.Fprintf(&sb, "t%d", t.id)
			return
		}
		switch t.op {
		case OExtract:
			fmt.Fprintf(&sb, "(extract[%d:%d] ", t.p1, t.p2)
		case OZext:
			fmt.Fprintf(&sb, "(zext%d ", t.w)
		case OSext:
			fmt.Fprintf(&sb, "(sext%d ", t.w)
		case OSToF:
			sb.WriteString("(s2f ")
		case OUToF:
			sb.WriteString("(u2f ")
		case OFToS:
			fmt.Fprintf(&sb, "(f2s%d ", t.w)
		case OFToU:
			fmt.Fprintf(&sb, "(f2u%d ", t.w)
		default:
			sb.WriteString("(" + opNames[t.op] + " ")
		}
		for i := 0; i < int(t.na); i++ {
			if i > 0 {
				sb.WriteString(" ")
			}
			rec(t.args[i], d+1)
		}
		sb.WriteString(")")
	}
	rec(t, 0)
	return sb.String()
}
