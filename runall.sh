#!/bin/bash
# runs every registered quick (or thorough) check - or the listed properties - and prints one line per property
# usage: runall.sh [quick|thorough] [Cxx ...]
tier=${1:-quick}
shift
cd "$(dirname "$0")"
mkdir -p out
props="$*"
[ -z "$props" ] && props=$(bin/gosmt list)
for p in $props; do
  s=$(date +%s)
  bin/gosmt check --property $p --tier $tier > out/all_$p.txt 2>&1
  rc=$?
  e=$(date +%s)
  echo "$p exit=$rc $((e-s))s known=$(grep -c '^KNOWN-FINDING' out/all_$p.txt) viol=$(grep -c '^VIOLATION' out/all_$p.txt) inconcl=$(grep -c '^INCONCLUSIVE' out/all_$p.txt)"
done
