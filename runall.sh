#!/bin/bash
# runs every registered quick (or thorough) check and prints one line per property
tier=${1:-quick}
cd "$(dirname "$0")"
for p in $(bin/gosmt list); do
  s=$(date +%s)
  bin/gosmt check --property $p --tier $tier > out/all_$p.txt 2>&1
  rc=$?
  e=$(date +%s)
  echo "$p exit=$rc $((e-s))s known=$(grep -c '^KNOWN-FINDING' out/all_$p.txt) viol=$(grep -c '^VIOLATION' out/all_$p.txt) inconcl=$(grep -c '^INCONCLUSIVE' out/all_$p.txt)"
done
