#!/usr/bin/env python3
# Generates MANIFEST.json from the table below (kept next to the property table of the engine).
import json
claimed = {
 "C09": ("CRC_32 check on input sections for every byte string of the listed sizes (symbolic bytes => every corruption); section_length/CRC_32 of written PAT/PMT sections", "§3 C09"),
 "C10": ("one symbolic CRC step for all (state, byte) pairs against a bit-serial CRC-32/MPEG-2 reference, plus initial value, chunking and residue obligations", "§3 C10"),
 "C11": ("parse(reference encoding) == model and write(model) == reference encoding for every TS header / adaptation-field layout in the bound, all field values symbolic; round trip through NextPacket/WritePacket", "§3 C11"),
 "C12": ("PES optional header decode/encode against a reference encoder for all flag subsets in the bound with symbolic field values; payload bounds; Duration() against 128-bit-free exact bounds via cvc5 bv-as-int", "§3 C12"),
 "C13": ("decode of reference-encoded PAT/PMT/SDT/NIT/EIT/TOT sections field for field, PAT/PMT encode byte for byte, for symbolic identifier values and bounded loop counts", "§3 C13"),
 "C14": ("each of the 23 typed descriptors + unknown + user-defined: write == reference, declared lengths == emitted bytes for an arbitrary struct Length field, parse(reference) re-encodes to the reference; loop lengths; input-side skipping for any tag", "§3 C14"),
 "C15": ("BCD and duration conversions for all bit patterns; MJD <-> calendar date with exact floating-point semantics (SMT FP theory) on domain chunks against integer Gregorian arithmetic", "§3 C15"),
}
claimed.update({
 "C01": ("Muxer output of bounded operation histories / single steps demultiplexed by the real Demuxer: one PES per WriteData with identical payload, stream id, PTS/DTS and first-packet adaptation field; PAT/PMT pair per emission", "§3 C04/C05/C17/C01"),
 "C04": ("every byte the Muxer hands to its writer after each operation of a bounded history and of one inductive step from an arbitrary valid state: whole 188-byte packets consistent under an independent decoder, exact byte counts, nothing written by rejected calls", "§3 C04/C05/C17/C01"),
 "C05": ("continuity counters of consecutive payload packets per PID across histories and across one inductive step (invariant: counter state == cc of the last packet actually written)", "§3 C04/C05/C17/C01"),
 "C17": ("table emission positions (first, every period, before RAI on the PCR PID), PMT/PAT contents, version rule and automatic PID assignment, over histories and one inductive step", "§3 C04/C05/C17/C01"),
})
claimed.update({
 "C02": ("reference-multiplexed streams (PES and PSI units, every split point in the bound, pointer fields, multi-section units, all 210 interleavings of a 4-PID stream) drained through NextData and compared unit by unit, including delivery order, EOF drain and the no-read-ahead position check", "§3 C02"),
 "C03": ("panic-freedom of parsePESData / parsePSIData / isPSIComplete / descriptor parsers on every byte string up to the stated lengths, and progress/termination of NextPacket/NextData on inputs of the listed lengths with arbitrary packet headers", "§3 C03"),
 "C06": ("every single duplication and every 1..3-packet deletion position of a 2-PID stream, and the packet accumulator on packets with symbolic counters/flags, compared with the fault-free run", "§3 C06"),
 "C07": ("packet pool on two PIDs with symbolic counters/flags under every merge and inserted noise packet; EOF drain order; recycled pool buffers with arbitrary stale contents; junk on a foreign PID", "§3 C07"),
 "C08": ("same stream through seekable/plain/bufio readers under all triples of short-read sizes from a representative set, explicit and auto-detected sizes 188..192, oversize packets with arbitrary extra bytes", "§3 C08"),
 "C16": ("sequential aliasing: every returned slice is snapshotted and re-compared after every later call on the same and on a second demuxer; muxer leaves the payload untouched (data races are outside the technique: see level_note)", "§3 C16"),
 "C18": ("reader failing at each listed byte offset and writer failing at every Write call index (permanent / one-shot): error surfaces wrapping the cause, count bounded, prefix of the fault-free output", "§3 C18"),
 "C19": ("all 2^5 skipper decisions on a 5-packet stream against the pre-filtered stream, callback arguments and call counts; packets parser as observer / replacer / failing", "§3 C19"),
 "C20": ("Rewind after every number of NextPacket/NextData calls (also twice), explicit and auto-detected size, followed by a full drain compared with a fresh demuxer", "§3 C20"),
})
pending = {}
na_reason = "no check is registered for this property at this commit (harness not built yet); it is not claimed"
all_ids = ["C%02d" % i for i in range(1, 21)]
checks = []
for pid in sorted(claimed):
    text, ref = claimed[pid]
    checks.append({
        "property_id": pid,
        "quick_cmd": "bin/gosmt check --property %s --tier quick" % pid,
        "thorough_cmd": "bin/gosmt check --property %s --tier thorough" % pid,
        "evidence_file": "evidence/%s.json" % pid,
        "replay_cmd_template": "bin/gosmt replay {path}",
        "engine": "gosmt",
        "level_claimed": {"category": "model_checking", "text": "bounded symbolic execution of the real functions (go/ssa from /repo's working tree) to SMT; " + text + "; unsat on every path = holds for all values inside the stated bound, sat = concrete input replayed natively", "design_ref": "DESIGN.md " + ref},
        "level_note": "trusted: the SSA->SMT translator in /verif/engine (checked on every run by native replay of one solver-chosen input per harness and of every counterexample), z3 4.8.12 / cvc5 1.0, the std stubs listed in the evidence file; bounds and what lies outside them are printed in evidence/<id>.json (coverage.bounds, coverage.outside_claim)",
        "technique": "solver-based: symbolic execution of go/ssa to SMT-LIB (z3/cvc5), bounded; counterexamples replayed with go test -overlay",
    })
manifest = {
 "version": 1,
 "setup_cmd": "cd /verif/engine && GOFLAGS=-mod=mod GOPROXY=off GOSUMDB=off GOTOOLCHAIN=local go build -o ../bin/gosmt .",
 "hooks": {
  "guard": "verif",
  "enable": "no hook is compiled into /repo: the harness files under /verif/harness are injected into package astits through the go/packages Overlay (engine) and `go test -overlay` (native replay); nothing is written under /repo",
  "baseline_off_cmd": "cd /repo && go test -vet=off -count=1 ./...",
  "source_commits": [],
  "add_only": True,
 },
 "engines": [{"name": "gosmt", "path": "engine", "serves_properties": sorted(claimed), "kind_free_text": "bounded symbolic execution of go/ssa (real code, current working tree) to SMT-LIB2; z3 4.8.12 / cvc5 1.0; native replay of counterexamples"}],
 "checks": checks,
 "not_applicable": [{"property_id": p, "reason": pending.get(p, na_reason)} for p in all_ids if p not in claimed],
 "notes": "Known genuine defects are listed in known_findings.json (KNOWN-FINDING lines, exit 0). See DESIGN.md.",
}
json.dump(manifest, open("/verif/MANIFEST.json", "w"), indent=1)
print("claimed", sorted(claimed))
